(* Thm/Common/Loops.v -- the generated `for validator in <list>: validator.validate(A, K)` loops, for any locals record:
   they behave as the reference [run_vals] (validators in list order, stopping at the first that does not accept). *)
From Coq Require Import List ZArith Bool String.
Import ListNotations.
Require Import Base Prog Sig Interp InterpFacts StmtFacts Model Validators.
Set Implicit Arguments.

Section Loops.
  Variable ftab : fid -> option fdef.
  Notation I := (interp ftab).

  (* reference semantics of "run the preconditions in application order, stop at the first that does not accept" *)
  Fixpoint run_vals (n : nat) (l : list validator) (a : pargs) (k : pkwargs) (exc : option exn) (w : world) : res unit :=
    match l with
    | [] => Done (inl tt) w
    | v :: t => match I n (validate v a k exc) w with
                | Done (inl _) w1 => run_vals n t a k exc w1
                | Done (inr e) w1 => Done (inr e) w1
                | Susp x kk w1 => Susp x kk w1
                | OutOfFuel => OutOfFuel
                end
    end.

  (* the generated loop `for validator in self.pres: validator.validate(args, kwargs)`, for any locals record *)
  Section Loop.
    Variables (env R : Type) (setv : validator -> env -> env) (getv : env -> validator) (geta : env -> pargs) (getk : env -> pkwargs) (gete : env -> option exn).
    Hypothesis getv_set : forall v e, getv (setv v e) = v.
    Hypothesis geta_set : forall v e, geta (setv v e) = geta e.
    Hypothesis getk_set : forall v e, getk (setv v e) = getk e.
    Hypothesis gete_set : forall v e, gete (setv v e) = gete e.
    Let body : stmt env R := s_do (fun e => validate (getv e) (geta e) (getk e) (gete e)).

    Definition after_loop (l : list validator) (e : env) : env := fold_left (fun e v => setv v e) l e.
    Lemma after_loop_proj X (proj : env -> X) (Hp : forall v e, proj (setv v e) = proj e) l :
      forall e, proj (after_loop l e) = proj e.
    Proof. induction l as [|v t IH]; intro e; [reflexivity|]. cbn. unfold after_loop in IH. rewrite IH. apply Hp. Qed.
    Lemma after_loop_a l : forall e, geta (after_loop l e) = geta e.
    Proof. induction l as [|v t IH]; intro e; [reflexivity|]. cbn. unfold after_loop in IH. rewrite IH. apply geta_set. Qed.
    Lemma after_loop_k l : forall e, getk (after_loop l e) = getk e.
    Proof. induction l as [|v t IH]; intro e; [reflexivity|]. cbn. unfold after_loop in IH. rewrite IH. apply getk_set. Qed.

    Lemma loop_accept n l : forall e w w1,
      run_vals n l (geta e) (getk e) (gete e) w = Done (inl tt) w1 ->
      I n (s_for_list setv l body e) w = Done (inl (CNormal, after_loop l e)) w1.
    Proof.
      induction l as [|v t IH]; intros e w w1 H.
      - cbn in H. inversion H; subst. apply for_nil.
      - cbn [run_vals] in H.
        destruct (I n (validate v (geta e) (getk e) (gete e)) w) as [[[]|x] w2|? ? w2|] eqn:E; try discriminate.
        assert (Hb : I n (body (setv v e)) w = Done (inl (CNormal, setv v e)) w2).
        { unfold body. apply do_done. rewrite getv_set, geta_set, getk_set, gete_set. exact E. }
        erewrite for_cons_normal by exact Hb. apply IH. rewrite geta_set, getk_set, gete_set. exact H.
    Qed.
    Lemma loop_reject n l : forall e w x w1,
      run_vals n l (geta e) (getk e) (gete e) w = Done (inr x) w1 ->
      I n (s_for_list setv l body e) w = Done (inr x) w1.
    Proof.
      induction l as [|v t IH]; intros e w x w1 H.
      - cbn in H. discriminate.
      - cbn [run_vals] in H.
        destruct (I n (validate v (geta e) (getk e) (gete e)) w) as [[[]|y] w2|? ? w2|] eqn:E; try discriminate.
        + assert (Hb : I n (body (setv v e)) w = Done (inl (CNormal, setv v e)) w2).
          { unfold body. apply do_done. rewrite getv_set, geta_set, getk_set, gete_set. exact E. }
          erewrite for_cons_normal by exact Hb. apply IH. rewrite geta_set, getk_set, gete_set. exact H.
        + inversion H; subst. apply for_cons_raise. unfold body. apply do_raise.
          rewrite getv_set, geta_set, getk_set, gete_set. exact E.
    Qed.
    Lemma loop_oof n l : forall e w,
      run_vals n l (geta e) (getk e) (gete e) w = OutOfFuel ->
      I n (s_for_list setv l body e) w = OutOfFuel.
    Proof.
      induction l as [|v t IH]; intros e w H.
      - cbn in H. discriminate.
      - cbn [run_vals] in H.
        destruct (I n (validate v (geta e) (getk e) (gete e)) w) as [[[]|y] w2|? ? w2|] eqn:E; try discriminate.
        + assert (Hb : I n (body (setv v e)) w = Done (inl (CNormal, setv v e)) w2).
          { unfold body. apply do_done. rewrite getv_set, geta_set, getk_set, gete_set. exact E. }
          erewrite for_cons_normal by exact Hb. apply IH. rewrite geta_set, getk_set, gete_set. exact H.
        + apply for_cons_oof. unfold body. apply do_oof. rewrite getv_set, geta_set, getk_set, gete_set. exact E.
    Qed.
  End Loop.

  (* the conditional loop `for validator in l: if <sel validator>: validator.validate(A, K, exc)` *)
  Section CondLoop.
    Variables (env R : Type) (setv : validator -> env -> env) (getv : env -> validator) (geta : env -> pargs) (getk : env -> pkwargs) (gete : env -> option exn).
    Variable sel : validator -> env -> bool.
    Hypothesis getv_set : forall v e, getv (setv v e) = v.
    Hypothesis geta_set : forall v e, geta (setv v e) = geta e.
    Hypothesis getk_set : forall v e, getk (setv v e) = getk e.
    Hypothesis gete_set : forall v e, gete (setv v e) = gete e.
    Hypothesis sel_set : forall u v e, sel u (setv v e) = sel u e.
    Let body : stmt env R := s_if (fun e => Ret (sel (getv e) e)) (s_do (fun e => validate (getv e) (geta e) (getk e) (gete e))) s_skip.

    Lemma cond_step_skip n v e w : sel v e = false -> I n (body (setv v e)) w = Done (inl (CNormal, setv v e)) w.
    Proof. intro Hs. unfold body. erewrite if_done by apply interp_ret. rewrite getv_set, sel_set, Hs. apply interp_ret. Qed.

    Lemma cond_loop_accept n l : forall e w w1,
      run_vals n (filter (fun v => sel v e) l) (geta e) (getk e) (gete e) w = Done (inl tt) w1 ->
      I n (s_for_list setv l body e) w = Done (inl (CNormal, after_loop setv l e)) w1.
    Proof.
      induction l as [|v t IH]; intros e w w1 H.
      - cbn in H. inversion H; subst. apply for_nil.
      - cbn [filter] in H. destruct (sel v e) eqn:Hs.
        + cbn [run_vals] in H.
          destruct (I n (validate v (geta e) (getk e) (gete e)) w) as [[[]|x] w2|? ? w2|] eqn:E; try discriminate.
          assert (Hb : I n (body (setv v e)) w = Done (inl (CNormal, setv v e)) w2).
          { unfold body. erewrite if_done by apply interp_ret. rewrite getv_set, sel_set, Hs.
            apply do_done. rewrite getv_set, geta_set, getk_set, gete_set. exact E. }
          erewrite for_cons_normal by exact Hb. apply IH.
          rewrite geta_set, getk_set, gete_set.
          erewrite filter_ext; [exact H|]. intro u. apply sel_set.
        + erewrite for_cons_normal by (apply cond_step_skip; exact Hs). apply IH.
          rewrite geta_set, getk_set, gete_set.
          erewrite filter_ext; [exact H|]. intro u. apply sel_set.
    Qed.
    Lemma cond_loop_reject n l : forall e w x w1,
      run_vals n (filter (fun v => sel v e) l) (geta e) (getk e) (gete e) w = Done (inr x) w1 ->
      I n (s_for_list setv l body e) w = Done (inr x) w1.
    Proof.
      induction l as [|v t IH]; intros e w x w1 H.
      - cbn in H. discriminate.
      - cbn [filter] in H. destruct (sel v e) eqn:Hs.
        + cbn [run_vals] in H.
          destruct (I n (validate v (geta e) (getk e) (gete e)) w) as [[[]|y] w2|? ? w2|] eqn:E; try discriminate.
          * assert (Hb : I n (body (setv v e)) w = Done (inl (CNormal, setv v e)) w2).
            { unfold body. erewrite if_done by apply interp_ret. rewrite getv_set, sel_set, Hs.
              apply do_done. rewrite getv_set, geta_set, getk_set, gete_set. exact E. }
            erewrite for_cons_normal by exact Hb. apply IH.
            rewrite geta_set, getk_set, gete_set.
            erewrite filter_ext; [exact H|]. intro u. apply sel_set.
          * inversion H; subst. apply for_cons_raise. unfold body.
            erewrite if_done by apply interp_ret. rewrite getv_set, sel_set, Hs.
            apply do_raise. rewrite getv_set, geta_set, getk_set, gete_set. exact E.
        + erewrite for_cons_normal by (apply cond_step_skip; exact Hs). apply IH.
          rewrite geta_set, getk_set, gete_set.
          erewrite filter_ext; [exact H|]. intro u. apply sel_set.
    Qed.
  End CondLoop.

  Definition dbg (b : bool) (w : world) : world := on_st (set_debug b) w.
End Loops.
