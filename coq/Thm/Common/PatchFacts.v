(* Thm/Common/PatchFacts.v -- HasPatcher.patch / unpatch / _get_exception as generated from deal/_runtime/_has_patcher.py
   are total state transformers; their effect in closed form. *)
From Coq Require Import List ZArith Bool String Lia.
Import ListNotations.
Require Import Base Prog Sig Interp InterpFacts StmtFacts Model HasPatcher.
Set Implicit Arguments.
Local Arguments Nat.ltb : simpl never.
Local Arguments Nat.leb : simpl never.
Local Arguments get_slot : simpl never.
Local Arguments put_slot : simpl never.
Local Arguments has_network : simpl never.
Local Arguments has_stdout : simpl never.
Local Arguments has_stderr : simpl never.
Local Arguments cls_eqb : simpl never.
Local Arguments set_sock : simpl never.
Local Arguments set_out : simpl never.
Local Arguments set_err : simpl never.
Local Arguments slot_depth : simpl never.
Local Arguments slot_sock : simpl never.
Local Arguments slot_out : simpl never.
Local Arguments slot_err : simpl never.

Definition get_exception_spec (p : patcher) (d : cls) : excspec :=
  if cls_eqb (exc_class (p_exception p)) MarkerErrorC
  then (if is_none (p_message p) then EClass d else EInst d [p_message p])
  else p_exception p.
Lemma get_exception_simple p d s : run_simple (GetException.run p d) s = Some (inl (get_exception_spec p d), s).
Proof.
  unfold get_exception_spec, GetException.run, GetException.body, run_body.
  destruct (cls_eqb (exc_class (p_exception p)) MarkerErrorC); destruct (is_none (p_message p)); reflexivity.
Qed.

Definition bump_depth (id : pid) (f : nat -> nat) (s : st) : st :=
  put_slot id (slot_depth (f (sv_depth (get_slot id s))) (get_slot id s)) s.
Definition patch_st (p : patcher) (s : st) : st :=
  let id := p_id p in
  let s1 := bump_depth id S s in
  if Nat.ltb 1 (sv_depth (get_slot id s1)) then s1 else
  let s2 := if has_network (p_markers p) then s1
            else set_sock (Patched id (get_exception_spec p OfflineContractErrorC)) (put_slot id (slot_sock (s_sock s1) (get_slot id s1)) s1) in
  let s3 := if has_stdout (p_markers p) then s2
            else set_out (Patched id (get_exception_spec p SilentContractErrorC)) (put_slot id (slot_out (s_out s2) (get_slot id s2)) s2) in
  if has_stderr (p_markers p) then s3
  else set_err (Patched id (get_exception_spec p SilentContractErrorC)) (put_slot id (slot_err (s_err s3) (get_slot id s3)) s3).
Definition unpatch_st (p : patcher) (s : st) : st :=
  let id := p_id p in
  let s1 := bump_depth id Nat.pred s in
  if Nat.ltb 0 (sv_depth (get_slot id s1)) then s1 else
  let s2 := if has_network (p_markers p) then s1 else set_sock (sv_sock (get_slot id s1)) s1 in
  let s3 := if has_stdout (p_markers p) then s2 else set_out (sv_out (get_slot id s2)) s2 in
  if has_stderr (p_markers p) then s3 else set_err (sv_err (get_slot id s3)) s3.

Lemma patch_simple p s : run_simple (Patch.run p) s = Some (inl tt, patch_st p s).
Proof.
  unfold patch_st, bump_depth, get_exception_spec, Patch.run, Patch.body, run_body, GetException.run, GetException.body, run_body.
  destruct (has_network (p_markers p)); destruct (has_stdout (p_markers p)); destruct (has_stderr (p_markers p));
    destruct (cls_eqb (exc_class (p_exception p)) MarkerErrorC); destruct (is_none (p_message p)).
  all: cbn.
  all: match goal with |- context [Nat.ltb 1 ?x] => destruct (Nat.ltb 1 x) end.
  all: reflexivity.
Qed.
Lemma unpatch_simple p s : run_simple (Unpatch.run p) s = Some (inl tt, unpatch_st p s).
Proof.
  unfold unpatch_st, bump_depth, Unpatch.run, Unpatch.body, run_body.
  destruct (has_network (p_markers p)); destruct (has_stdout (p_markers p)); destruct (has_stderr (p_markers p)).
  all: cbn.
  all: match goal with |- context [Nat.ltb 0 ?x] => destruct (Nat.ltb 0 x) end.
  all: reflexivity.
Qed.

Section Interp.
  Variable ftab : fid -> option fdef.
  Notation I := (interp ftab).
  Lemma patch_interp n p w : I n (Patch.run p) w = Done (inl tt) (on_st (patch_st p) w).
  Proof. destruct w as [s g]. apply run_simple_sound, patch_simple. Qed.
  Lemma unpatch_interp n p w : I n (Unpatch.run p) w = Done (inl tt) (on_st (unpatch_st p) w).
  Proof. destruct w as [s g]. apply run_simple_sound, unpatch_simple. Qed.
End Interp.

