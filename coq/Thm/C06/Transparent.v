(* Thm/C06/Transparent.v -- when every contract accepts, the generated sync / async wrapper hands the caller's very arguments
   to the original function and returns the very value it returned; with contracts disabled it is the original call. *)
From Coq Require Import List ZArith Bool String.
Import ListNotations.
Require Import Base Prog Sig Interp InterpFacts StmtFacts Model Validators HasPatcher Contracts Loops PatchFacts Gate Post.
Set Implicit Arguments.

Section Transparent.
  Variable ftab : fid -> option fdef.
  Notation I := (interp ftab).
  Definition patch_w (c : contracts) (w : world) : world := match c_patcher c with Some p => on_st (patch_st p) w | None => w end.
  Definition unpatch_w (c : contracts) (w : world) : world := match c_patcher c with Some p => on_st (unpatch_st p) w | None => w end.

  Section Sync.
    Import RunSync.
    Variables (lf : nat) (c : contracts).
    Lemma patch_stmt n e w : I n (stmt3 lf c e) w = Done (inl (CNormal, e)) (patch_w c w).
    Proof.
      unfold stmt3, patch_w. erewrite if_done by apply interp_ret. unfold with_patcher.
      destruct (c_patcher c) as [p|]; cbn [is_some]; [apply do_done, patch_interp|apply interp_ret].
    Qed.
    Lemma unpatch_fin n e w :
      I n (s_if (R:=value) (fun _ : env => Ret (is_some (c_patcher c))) (s_do (fun _ => with_patcher (c_patcher c) Unpatch.run)) s_skip e) w
      = Done (inl (CNormal, e)) (unpatch_w c w).
    Proof.
      unfold unpatch_w. erewrite if_done by apply interp_ret. unfold with_patcher.
      destruct (c_patcher c) as [p|]; cbn [is_some]; [apply do_done, unpatch_interp|apply interp_ret].
    Qed.

    Theorem sync_transparent n a k w w1 v w2 w3 :
      debug (wst w) = true ->
      run_vals ftab n (c_pres c) a k None (dbg false w) = Done (inl tt) w1 ->
      I n (call_func (c_func c) a k) (patch_w c (dbg true w1)) = Done (inl v) w2 ->
      run_posts ftab n c a k v (dbg false (unpatch_w c w2)) = Done (inl tt) w3 ->
      I n (run lf c a k) w = Done (inl v) (dbg true w3).
    Proof.
      intros Hd Hpre Hbody Hpost.
      destruct (gate_sync_accept ftab lf c n a k w Hd Hpre) as (e1 & Ha & Hk & ->).
      unfold tail3. erewrite run_body_seq_normal by apply patch_stmt.
      unfold tail4. erewrite run_body_seq_normal.
      2:{ unfold stmt4. erewrite finally_done.
          2:{ unfold s_try. apply interp_try_except_ret. apply assign_done. rewrite Ha, Hk. exact Hbody. }
          cbn beta iota. erewrite interp_bind_done by apply unpatch_fin. apply interp_ret. }
      change (I n (run_body (tail5 lf c) (set_result v e1) VNone) (unpatch_w c w2) = Done (inl v) (dbg true w3)).
      replace v with (l_result (set_result v e1)) at 2 by reflexivity.
      apply post_sync_accept. cbn [l_args l_kwargs l_result set_result]. rewrite Ha, Hk. exact Hpost.
    Qed.

    (* ... and an exception of the body that every raises / reason contract admits comes out as the same object: Thm/C03 *)
  End Sync.

  Section Async.
    Import RunAsync.
    Variables (lf : nat) (c : contracts).
    Lemma apatch_stmt n e w : I n (stmt3 lf c e) w = Done (inl (CNormal, e)) (patch_w c w).
    Proof.
      unfold stmt3, patch_w. erewrite if_done by apply interp_ret. unfold with_patcher.
      destruct (c_patcher c) as [p|]; cbn [is_some]; [apply do_done, patch_interp|apply interp_ret].
    Qed.
    Lemma aunpatch_fin n e w :
      I n (s_if (R:=value) (fun _ : env => Ret (is_some (c_patcher c))) (s_do (fun _ => with_patcher (c_patcher c) Unpatch.run)) s_skip e) w
      = Done (inl (CNormal, e)) (unpatch_w c w).
    Proof.
      unfold unpatch_w. erewrite if_done by apply interp_ret. unfold with_patcher.
      destruct (c_patcher c) as [p|]; cbn [is_some]; [apply do_done, unpatch_interp|apply interp_ret].
    Qed.
    (* the awaited body completes without suspending (the suspending case is the business of C13) *)
    Theorem async_transparent n a k w w1 v w2 w3 :
      debug (wst w) = true ->
      run_vals ftab n (c_pres c) a k None (dbg false w) = Done (inl tt) w1 ->
      I n (call_func (c_func c) a k) (patch_w c (dbg true w1)) = Done (inl v) w2 ->
      run_posts ftab n c a k v (dbg false (unpatch_w c w2)) = Done (inl tt) w3 ->
      I n (run lf c a k) w = Done (inl v) (dbg true w3).
    Proof.
      intros Hd Hpre Hbody Hpost.
      destruct (gate_async_accept ftab lf c n a k w Hd Hpre) as (e1 & Ha & Hk & ->).
      unfold tail3. erewrite run_body_seq_normal by apply apatch_stmt.
      unfold tail4. erewrite run_body_seq_normal.
      2:{ unfold stmt4. erewrite finally_done.
          2:{ unfold s_try. apply interp_try_except_ret. apply assign_done. rewrite Ha, Hk. exact Hbody. }
          cbn beta iota. erewrite interp_bind_done by apply aunpatch_fin. apply interp_ret. }
      change (I n (run_body (tail5 lf c) (set_result v e1) VNone) (unpatch_w c w2) = Done (inl v) (dbg true w3)).
      replace v with (l_result (set_result v e1)) at 2 by reflexivity.
      apply post_async_accept. cbn [l_args l_kwargs l_result set_result]. rewrite Ha, Hk. exact Hpost.
    Qed.
  End Async.
End Transparent.
