(* Thm/C18/Lint.v -- theorems about the linter's exception / marker analysis (Sem/LintModel.v) with the coverage predicates
   regenerated from the source (Gen/Rules.v: linter_covers, linter_admits; Gen/HasPatcher.v: the has_* properties). *)
From Coq Require Import List ZArith Bool String.
Import ListNotations.
Require Import Base Model HasPatcher Rules LintModel.
Open Scope string_scope.
Local Open Scope list_scope.

(* ---------- (1) a finding exists iff the effect is extracted and the declaration does not cover it ---------- *)
Theorem raises_iff t us f n :
  In n (check_raises t us f) <->
  raises_decls (l_decls f) <> [] /\ exists c, In c (get_exceptions t us (l_body f)) /\ c_name c = n /\ linter_admits (raises_decls (l_decls f)) c = false.
Proof.
  unfold check_raises. destruct (raises_decls (l_decls f)) as [|d ds] eqn:E.
  - split; [intros []|intros [H _]; contradiction].
  - rewrite in_map_iff. split.
    + intros [c [Hn Hin]]. apply filter_In in Hin. destruct Hin as [Hin Ha]. split; [discriminate|]. exists c. apply negb_true_iff in Ha. auto.
    + intros [_ [c [Hin [Hn Ha]]]]. exists c. split; [exact Hn|]. apply filter_In. split; [exact Hin|]. apply negb_true_iff. exact Ha.
Qed.
Theorem markers_iff t us f M m :
  first_has (l_decls f) = Some M ->
  (In m (check_markers t us f) <->
   (m = "io" /\ has_io M = false /\ l_has_self f = false /\ has_returns (l_body f) = false) \/
   (exists m0, In m0 (get_markers t us (l_body f)) /\ linter_covers M m0 = false /\ m = linter_canon m0)).
Proof.
  intro H. unfold check_markers. rewrite H. unfold undeclared_markers. rewrite in_app_iff, in_map_iff.
  assert (Hf : (exists x, linter_canon x = m /\ In x (filter (fun m => negb (linter_covers M m)) (get_markers t us (l_body f)))) <->
               (exists m0, In m0 (get_markers t us (l_body f)) /\ linter_covers M m0 = false /\ m = linter_canon m0)).
  { split; intros [x Hx]; exists x.
    - destruct Hx as [E Hin]. apply filter_In in Hin. destruct Hin as [Hin Hc]. apply negb_true_iff in Hc. auto.
    - destruct Hx as [Hin [Hc E]]. split; [auto|]. apply filter_In. split; [exact Hin|]. apply negb_true_iff. exact Hc. }
  rewrite Hf.
  destruct (has_io M), (l_has_self f), (has_returns (l_body f)); cbn; intuition congruence.
Qed.
(* without a declaration of the family nothing is reported *)
Theorem no_declaration_no_findings t us f :
  raises_decls (l_decls f) = [] -> first_has (l_decls f) = None -> check_raises t us f = [] /\ check_markers t us f = [].
Proof. intros H1 H2. unfold check_raises, check_markers. rewrite H1, H2. split; reflexivity. Qed.

(* ---------- (2) subclass-aware for exceptions; AssertionError is always admitted ---------- *)
Lemma admits_spec cs c : linter_admits cs c = true <-> exists d, In d (AssertionErrorC :: List.concat cs) /\ issubclass c d = true.
Proof. unfold linter_admits, linter_declared. rewrite existsb_exists. reflexivity. Qed.
Theorem subclass_admitted cs c d ds : In ds cs -> In d ds -> issubclass c d = true -> linter_admits cs c = true.
Proof.
  intros H1 H2 H3. apply admits_spec. exists d. split; [|exact H3]. right. apply in_concat. exists ds. auto.
Qed.
Theorem assertion_admitted cs : linter_admits cs AssertionErrorC = true.
Proof. apply admits_spec. exists AssertionErrorC. split; [left; reflexivity|reflexivity]. Qed.

(* ---------- (3) enlarging a declaration never adds findings ---------- *)
Lemma admits_mono cs cs' c : incl (List.concat cs) (List.concat cs') -> linter_admits cs c = true -> linter_admits cs' c = true.
Proof.
  intros Hi H. apply admits_spec in H. destruct H as [d [[Hd|Hd] Hs]]; apply admits_spec; exists d; (split; [|exact Hs]); [left; exact Hd|right; apply Hi; exact Hd].
Qed.
Theorem raises_monotone t us body ds ds' hs :
  raises_decls ds <> [] -> incl (List.concat (raises_decls ds)) (List.concat (raises_decls ds')) ->
  incl (check_raises t us {| l_body := body; l_decls := ds'; l_has_self := hs |}) (check_raises t us {| l_body := body; l_decls := ds; l_has_self := hs |}).
Proof.
  intros Hn Hi n Hin. apply raises_iff in Hin. cbn [l_decls l_body] in Hin. destruct Hin as [_ [c [Hc [Hnm Ha]]]].
  apply raises_iff. cbn [l_decls l_body]. split; [exact Hn|]. exists c. split; [exact Hc|]. split; [exact Hnm|].
  destruct (linter_admits (raises_decls ds) c) eqn:E; [|reflexivity]. rewrite (admits_mono _ _ _ Hi E) in Ha. discriminate.
Qed.
(* one more @deal.raises(...) decorator on a function that already has one *)
Corollary add_raises_decorator t us body ds extra hs :
  raises_decls ds <> [] ->
  incl (check_raises t us {| l_body := body; l_decls := ds ++ [DRaises extra]; l_has_self := hs |}) (check_raises t us {| l_body := body; l_decls := ds; l_has_self := hs |}).
Proof.
  intro Hn. apply raises_monotone; [exact Hn|]. unfold raises_decls. rewrite flat_map_app, concat_app. apply incl_appl. apply incl_refl.
Qed.

(* markers: every coverage predicate generated from HasPatcher is monotone in the declared set *)
Lemma has_marker_mono x M M' : incl M M' -> has_marker x M = true -> has_marker x M' = true.
Proof.
  unfold has_marker. intros Hi H. apply existsb_exists in H. destruct H as [y [Hy E]]. apply existsb_exists. exists y. split; [apply Hi; exact Hy|exact E].
Qed.
Ltac mono_ifs Hi :=
  repeat match goal with
         | |- context [if has_marker ?x ?M then _ else _] =>
             lazymatch goal with
             | H : has_marker x M = _ |- _ => fail
             | _ => destruct (has_marker x M) eqn:?
             end
         end;
  repeat match goal with
         | H : has_marker ?x ?M = true |- _ => apply (has_marker_mono x M _ Hi) in H
         end.
Lemma has_io_mono M M' : incl M M' -> has_io M = true -> has_io M' = true.
Proof.
  unfold has_io. intros Hi H. apply existsb_exists in H. destruct H as [y [Hy E]]. apply existsb_exists. exists y. split; [apply Hi; exact Hy|exact E].
Qed.
Lemma covers_canon_mono M M' m : incl M M' -> linter_covers_canon M m = true -> linter_covers_canon M' m = true.
Proof.
  intros Hi. unfold linter_covers_canon, has_property.
  repeat match goal with |- context [if String.eqb m ?s then _ else _] => destruct (String.eqb m s) end;
    try (apply has_io_mono; exact Hi); try (apply has_marker_mono; exact Hi);
    unfold has_network, has_stdout, has_stderr, has_global, has_read, has_stdin, has_syscall, has_write;
    intro H;
    repeat match goal with
           | |- context [has_marker ?x M'] =>
               lazymatch goal with
               | E : has_marker x M' = _ |- _ => fail
               | _ => destruct (has_marker x M') eqn:?
               end
           end; try reflexivity;
    repeat match goal with
           | H : context [has_marker ?x M] |- _ =>
               lazymatch goal with
               | E : has_marker x M = _ |- _ => fail
               | _ => destruct (has_marker x M) eqn:?
               end
           end; try discriminate;
    repeat match goal with
           | E : has_marker ?x M = true, E' : has_marker ?x M' = false |- _ => rewrite (has_marker_mono x M M' Hi E) in E'; discriminate
           end.
Qed.
Lemma covers_mono M M' m : incl M M' -> linter_covers M m = true -> linter_covers M' m = true.
Proof. unfold linter_covers. apply covers_canon_mono. Qed.
(* a marker declared (by a callee, a stub) under another name is judged as the marker itself *)
Theorem alias_markers M :
  linter_covers M "print" = linter_covers M "stdout" /\ linter_covers M "socket" = linter_covers M "network" /\
  linter_covers M "input" = linter_covers M "stdin" /\ linter_covers M "nonlocal" = linter_covers M "global".
Proof. repeat split; reflexivity. Qed.
Theorem markers_monotone t us f M M' :
  incl M M' -> incl (undeclared_markers t us f M') (undeclared_markers t us f M).
Proof.
  intros Hi m Hin. unfold undeclared_markers in *. apply in_app_iff in Hin. apply in_app_iff. destruct Hin as [Hin|Hin].
  - left. destruct (has_io M') eqn:E'; cbn in Hin; [destruct Hin|].
    destruct (has_io M) eqn:E; [rewrite (has_io_mono _ _ Hi E) in E'; discriminate|exact Hin].
  - right. apply in_map_iff in Hin. destruct Hin as [x [Ex Hin]]. apply in_map_iff. exists x. split; [exact Ex|].
    apply filter_In in Hin. destruct Hin as [Hin Hc]. apply filter_In. split; [exact Hin|].
    apply negb_true_iff in Hc. apply negb_true_iff. destruct (linter_covers M x) eqn:E; [|reflexivity].
    rewrite (covers_mono _ _ _ Hi E) in Hc. discriminate.
Qed.

(* ---------- (4) try bodies: not inspected for exceptions, inspected for markers ---------- *)
Theorem try_body_not_inspected t us b b' hs e f : get_exceptions t us [STry b hs e f] = get_exceptions t us [STry b' hs e f].
Proof. reflexivity. Qed.
Theorem try_body_markers_inspected t us b hs e f m : In m (get_markers t us b) -> In m (get_markers t us [STry b hs e f]).
Proof.
  unfold get_markers, visited_all. cbn [flat_map leaves_all]. rewrite app_nil_r. intro H.
  apply in_flat_map in H. destruct H as [l [Hl Hm]]. apply in_flat_map. exists l. split; [|exact Hm]. apply in_or_app. left. exact Hl.
Qed.
Theorem handler_bodies_inspected t us b h hb hs e f c :
  In c (get_exceptions t us hb) -> In c (get_exceptions t us [STry b ((h, hb) :: hs) e f]).
Proof.
  unfold get_exceptions, visited. cbn [flat_map leaves snd]. rewrite app_nil_r. intro H.
  apply in_flat_map in H. destruct H as [l [Hl Hm]]. apply in_flat_map. exists l. split; [|exact Hm]. apply in_or_app. left. apply in_or_app. left. exact Hl.
Qed.

(* ---------- (5) one level of callees ---------- *)
Theorem one_level_exceptions t t' us f : lookup t f = lookup t' f -> get_exceptions t us [SLeaf (LCall f)] = get_exceptions t' us [SLeaf (LCall f)].
Proof. intro H. unfold get_exceptions, visited. cbn. rewrite H. reflexivity. Qed.
Theorem callee_calls_not_followed t k f :
  lookup t f = Some k -> k_stub k = None ->
  get_exceptions t false [SLeaf (LCall f)] = flat_map exc_own (visited (k_body k)) ++ k_raises k ++ k_doc k.
Proof. intros H _. unfold get_exceptions, visited. cbn. rewrite H. cbn. rewrite app_nil_r. reflexivity. Qed.
Lemma exc_own_call g : exc_own (LCall g) = [].
Proof. reflexivity. Qed.

(* ---------- (6) stubs ---------- *)
Theorem stub_lists_extractor_output t body : stub_of t body = (map c_name (get_exceptions t true body), get_markers t true body).
Proof. reflexivity. Qed.
Theorem caller_charged_stub_entries t f k rs ms :
  lookup t f = Some k -> k_stub k = Some (rs, ms) ->
  get_exceptions t true [SLeaf (LCall f)] = rs /\ get_markers t true [SLeaf (LCall f)] = ms.
Proof.
  intros H Hs. unfold get_exceptions, get_markers, visited, visited_all. cbn. rewrite H. cbn. rewrite Hs. rewrite !app_nil_r. split; reflexivity.
Qed.

(* ---------- refuted at full strength ---------- *)
Definition ValueErrorC := under_exception "ValueError" [].
Definition KeyErrorC := under_exception "KeyError" ["LookupError"].
(* an exception raised in a try body escapes when no handler catches it; the analysis does not look *)
Example uncaught_in_try_not_reported :
  check_raises [] false {| l_body := [STry [SLeaf (LRaise ValueErrorC)] [(Some KeyErrorC, [SLeaf LPass])] [] []]; l_decls := [DRaises []]; l_has_self := false |} = [].
Proof. reflexivity. Qed.
(* only the first has contract counts *)
Example second_has_ignored :
  check_markers [] false {| l_body := [SLeaf LPrint; SLeaf LReturn]; l_decls := [DHas []; DHas ["stdout"]]; l_has_self := false |} = ["stdout"] /\
  check_markers [] false {| l_body := [SLeaf LPrint; SLeaf LReturn]; l_decls := [DHas ["stdout"]; DHas []]; l_has_self := false |} = [].
Proof. split; reflexivity. Qed.
(* a callee that declares io (anything) is covered by a caller that only declares stdout *)
Example io_covered_by_child :
  check_markers [("g", {| k_body := []; k_raises := []; k_has := ["io"]; k_doc := []; k_stub := None |})] false
    {| l_body := [SLeaf (LCall "g"); SLeaf LReturn]; l_decls := [DHas ["stdout"]]; l_has_self := false |} = [].
Proof. reflexivity. Qed.
