(* Thm/C02/Post.v -- the post-validation block of the generated wrappers decides delivery of a value:
   it is returned iff every post accepts (v) and every ensure accepts (args, kwargs + result=v); otherwise the first
   failure is raised; either way the switch is restored. Every registry, validator, value, world, fuel. *)
From Coq Require Import List ZArith Bool String.
Import ListNotations.
Require Import Base Prog Sig Interp InterpFacts StmtFacts Model Validators HasPatcher Contracts Loops.
Set Implicit Arguments.

Section Post.
  Variable ftab : fid -> option fdef.
  Notation I := (interp ftab).
  Notation run_vals := (run_vals ftab).

  (* reference: posts on the value alone, then ensures on the original arguments plus result *)
  Definition run_posts (n : nat) (c : contracts) (a : pargs) (k : pkwargs) (v : value) (w : world) : res unit :=
    match run_vals n (c_posts c) [v] [] None w with
    | Done (inl _) w1 => run_vals n (c_ensures c) a (kwargs_with k "result" v) None w1
    | r => r
    end.

  Section Sync.
    Import RunSync.
    Variables (lf : nat) (c : contracts).
    Lemma fin n e w : I n (s_do (R:=value) (fun _ : env => x__ <- Ret true ;; modify (set_debug x__)) e) w = Done (inl (CNormal, e)) (dbg true w).
    Proof. apply do_done. erewrite interp_bind_done by apply interp_ret. apply interp_modify. Qed.
    Lemma start n e w : I n (stmt5 lf c e) w = Done (inl (CNormal, e)) (dbg false w).
    Proof. unfold stmt5. apply do_done. erewrite interp_bind_done by apply interp_ret. apply interp_modify. Qed.
    Let posts_env (e : env) := after_loop set_validator (c_posts c) e.
    Let ens_env (e : env) := after_loop set_validator (c_ensures c) (posts_env e).
    Lemma res_posts e : l_result (posts_env e) = l_result e /\ l_args (posts_env e) = l_args e /\ l_kwargs (posts_env e) = l_kwargs e.
    Proof.
      unfold posts_env. repeat split.
      - apply (@after_loop_proj env set_validator _ l_result (fun _ _ => eq_refl)).
      - apply (@after_loop_proj env set_validator _ l_args (fun _ _ => eq_refl)).
      - apply (@after_loop_proj env set_validator _ l_kwargs (fun _ _ => eq_refl)).
    Qed.
    Lemma res_ens e : l_result (ens_env e) = l_result e.
    Proof.
      unfold ens_env. rewrite (@after_loop_proj env set_validator _ l_result (fun _ _ => eq_refl)). apply res_posts.
    Qed.

    (* the try-body of statement 6: the two loops *)
    Lemma loops_accept n e w w1 :
      run_posts n c (l_args e) (l_kwargs e) (l_result e) w = Done (inl tt) w1 ->
      I n (s_seq (s_for set_validator (fun _ => c_posts c) (s_do (R:=value) (fun env => validate (l_validator env) [l_result env] [] None)))
                 (s_for set_validator (fun _ => c_ensures c) (s_do (fun env => validate (l_validator env) (l_args env) (kwargs_with (l_kwargs env) "result" (l_result env)) None))) e) w
      = Done (inl (CNormal, ens_env e)) w1.
    Proof.
      unfold run_posts. intro Hp.
      destruct (run_vals n (c_posts c) [l_result e] [] None w) as [[[]|x] w2|? ? w2|] eqn:E1; try discriminate.
      pose proof (@loop_accept ftab env value set_validator l_validator (fun e => [l_result e]) (fun _ => []) (fun _ => None)
                  (fun _ _ => eq_refl) (fun _ _ => eq_refl) (fun _ _ => eq_refl) (fun _ _ => eq_refl) n (c_posts c) e w w2 E1) as H1.
      erewrite seq_normal by (unfold s_for; exact H1).
      destruct (res_posts e) as (Hr & Ha & Hk).
      unfold s_for.
      apply (@loop_accept ftab env value set_validator l_validator l_args (fun e => kwargs_with (l_kwargs e) "result" (l_result e)) (fun _ => None)
                  (fun _ _ => eq_refl) (fun _ _ => eq_refl) (fun _ _ => eq_refl) (fun _ _ => eq_refl) n (c_ensures c) (posts_env e) w2 w1).
      fold (posts_env e). rewrite Ha, Hk, Hr. exact Hp.
    Qed.
    Lemma loops_reject n e w x w1 :
      run_posts n c (l_args e) (l_kwargs e) (l_result e) w = Done (inr x) w1 ->
      I n (s_seq (s_for set_validator (fun _ => c_posts c) (s_do (R:=value) (fun env => validate (l_validator env) [l_result env] [] None)))
                 (s_for set_validator (fun _ => c_ensures c) (s_do (fun env => validate (l_validator env) (l_args env) (kwargs_with (l_kwargs env) "result" (l_result env)) None))) e) w
      = Done (inr x) w1.
    Proof.
      unfold run_posts. intro Hp.
      destruct (run_vals n (c_posts c) [l_result e] [] None w) as [[[]|y] w2|? ? w2|] eqn:E1; try discriminate.
      - pose proof (@loop_accept ftab env value set_validator l_validator (fun e => [l_result e]) (fun _ => []) (fun _ => None)
                  (fun _ _ => eq_refl) (fun _ _ => eq_refl) (fun _ _ => eq_refl) (fun _ _ => eq_refl) n (c_posts c) e w w2 E1) as H1.
        erewrite seq_normal by (unfold s_for; exact H1).
        destruct (res_posts e) as (Hr & Ha & Hk). unfold s_for.
        apply (@loop_reject ftab env value set_validator l_validator l_args (fun e => kwargs_with (l_kwargs e) "result" (l_result e)) (fun _ => None)
                  (fun _ _ => eq_refl) (fun _ _ => eq_refl) (fun _ _ => eq_refl) (fun _ _ => eq_refl) n (c_ensures c) (posts_env e) w2 x w1).
        fold (posts_env e). rewrite Ha, Hk, Hr. exact Hp.
      - inversion Hp; subst. apply seq_raise. unfold s_for.
        apply (@loop_reject ftab env value set_validator l_validator (fun e => [l_result e]) (fun _ => []) (fun _ => None)
                  (fun _ _ => eq_refl) (fun _ _ => eq_refl) (fun _ _ => eq_refl) (fun _ _ => eq_refl) n (c_posts c) e w x w1 E1).
    Qed.

    Theorem post_sync_accept n e w w1 :
      run_posts n c (l_args e) (l_kwargs e) (l_result e) (dbg false w) = Done (inl tt) w1 ->
      I n (run_body (tail5 lf c) e VNone) w = Done (inl (l_result e)) (dbg true w1).
    Proof.
      intro Hp. unfold tail5. erewrite run_body_seq_normal by apply start. unfold tail6.
      erewrite run_body_seq_normal.
      2:{ unfold stmt6. erewrite finally_done by (apply loops_accept; exact Hp). cbn beta iota.
          erewrite interp_bind_done by apply fin. apply interp_ret. }
      unfold tail7. apply run_body_seq_return with (e1 := ens_env e). unfold stmt7.
      apply return_done. rewrite res_ens. apply interp_ret.
    Qed.
    Theorem post_sync_reject n e w x w1 :
      run_posts n c (l_args e) (l_kwargs e) (l_result e) (dbg false w) = Done (inr x) w1 ->
      I n (run_body (tail5 lf c) e VNone) w = Done (inr x) (dbg true w1).
    Proof.
      intro Hp. unfold tail5. erewrite run_body_seq_normal by apply start. unfold tail6.
      apply run_body_seq_raise. unfold stmt6.
      erewrite finally_done by (apply loops_reject; exact Hp). cbn beta iota.
      erewrite interp_bind_done.
      2:{ erewrite interp_in_handler_done by apply fin. reflexivity. }
      apply interp_raise.
    Qed.
  End Sync.

  Section Async.
    Import RunAsync.
    Variables (lf : nat) (c : contracts).
    Lemma afin n e w : I n (s_do (R:=value) (fun _ : env => x__ <- Ret true ;; modify (set_debug x__)) e) w = Done (inl (CNormal, e)) (dbg true w).
    Proof. apply do_done. erewrite interp_bind_done by apply interp_ret. apply interp_modify. Qed.
    Lemma astart n e w : I n (stmt5 lf c e) w = Done (inl (CNormal, e)) (dbg false w).
    Proof. unfold stmt5. apply do_done. erewrite interp_bind_done by apply interp_ret. apply interp_modify. Qed.
    Let aposts_env (e : env) := after_loop set_validator (c_posts c) e.
    Let aens_env (e : env) := after_loop set_validator (c_ensures c) (aposts_env e).
    Lemma ares_posts e : l_result (aposts_env e) = l_result e /\ l_args (aposts_env e) = l_args e /\ l_kwargs (aposts_env e) = l_kwargs e.
    Proof.
      unfold aposts_env. repeat split.
      - apply (@after_loop_proj env set_validator _ l_result (fun _ _ => eq_refl)).
      - apply (@after_loop_proj env set_validator _ l_args (fun _ _ => eq_refl)).
      - apply (@after_loop_proj env set_validator _ l_kwargs (fun _ _ => eq_refl)).
    Qed.
    Lemma ares_ens e : l_result (aens_env e) = l_result e.
    Proof.
      unfold aens_env. rewrite (@after_loop_proj env set_validator _ l_result (fun _ _ => eq_refl)). apply ares_posts.
    Qed.

    (* the try-body of statement 6: the two loops *)
    Lemma aloops_accept n e w w1 :
      run_posts n c (l_args e) (l_kwargs e) (l_result e) w = Done (inl tt) w1 ->
      I n (s_seq (s_for set_validator (fun _ => c_posts c) (s_do (R:=value) (fun env => validate (l_validator env) [l_result env] [] None)))
                 (s_for set_validator (fun _ => c_ensures c) (s_do (fun env => validate (l_validator env) (l_args env) (kwargs_with (l_kwargs env) "result" (l_result env)) None))) e) w
      = Done (inl (CNormal, aens_env e)) w1.
    Proof.
      unfold run_posts. intro Hp.
      destruct (run_vals n (c_posts c) [l_result e] [] None w) as [[[]|x] w2|? ? w2|] eqn:E1; try discriminate.
      pose proof (@loop_accept ftab env value set_validator l_validator (fun e => [l_result e]) (fun _ => []) (fun _ => None)
                  (fun _ _ => eq_refl) (fun _ _ => eq_refl) (fun _ _ => eq_refl) (fun _ _ => eq_refl) n (c_posts c) e w w2 E1) as H1.
      erewrite seq_normal by (unfold s_for; exact H1).
      destruct (ares_posts e) as (Hr & Ha & Hk).
      unfold s_for.
      apply (@loop_accept ftab env value set_validator l_validator l_args (fun e => kwargs_with (l_kwargs e) "result" (l_result e)) (fun _ => None)
                  (fun _ _ => eq_refl) (fun _ _ => eq_refl) (fun _ _ => eq_refl) (fun _ _ => eq_refl) n (c_ensures c) (aposts_env e) w2 w1).
      fold (aposts_env e). rewrite Ha, Hk, Hr. exact Hp.
    Qed.
    Lemma aloops_reject n e w x w1 :
      run_posts n c (l_args e) (l_kwargs e) (l_result e) w = Done (inr x) w1 ->
      I n (s_seq (s_for set_validator (fun _ => c_posts c) (s_do (R:=value) (fun env => validate (l_validator env) [l_result env] [] None)))
                 (s_for set_validator (fun _ => c_ensures c) (s_do (fun env => validate (l_validator env) (l_args env) (kwargs_with (l_kwargs env) "result" (l_result env)) None))) e) w
      = Done (inr x) w1.
    Proof.
      unfold run_posts. intro Hp.
      destruct (run_vals n (c_posts c) [l_result e] [] None w) as [[[]|y] w2|? ? w2|] eqn:E1; try discriminate.
      - pose proof (@loop_accept ftab env value set_validator l_validator (fun e => [l_result e]) (fun _ => []) (fun _ => None)
                  (fun _ _ => eq_refl) (fun _ _ => eq_refl) (fun _ _ => eq_refl) (fun _ _ => eq_refl) n (c_posts c) e w w2 E1) as H1.
        erewrite seq_normal by (unfold s_for; exact H1).
        destruct (ares_posts e) as (Hr & Ha & Hk). unfold s_for.
        apply (@loop_reject ftab env value set_validator l_validator l_args (fun e => kwargs_with (l_kwargs e) "result" (l_result e)) (fun _ => None)
                  (fun _ _ => eq_refl) (fun _ _ => eq_refl) (fun _ _ => eq_refl) (fun _ _ => eq_refl) n (c_ensures c) (aposts_env e) w2 x w1).
        fold (aposts_env e). rewrite Ha, Hk, Hr. exact Hp.
      - inversion Hp; subst. apply seq_raise. unfold s_for.
        apply (@loop_reject ftab env value set_validator l_validator (fun e => [l_result e]) (fun _ => []) (fun _ => None)
                  (fun _ _ => eq_refl) (fun _ _ => eq_refl) (fun _ _ => eq_refl) (fun _ _ => eq_refl) n (c_posts c) e w x w1 E1).
    Qed.

    Theorem post_async_accept n e w w1 :
      run_posts n c (l_args e) (l_kwargs e) (l_result e) (dbg false w) = Done (inl tt) w1 ->
      I n (run_body (tail5 lf c) e VNone) w = Done (inl (l_result e)) (dbg true w1).
    Proof.
      intro Hp. unfold tail5. erewrite run_body_seq_normal by apply astart. unfold tail6.
      erewrite run_body_seq_normal.
      2:{ unfold stmt6. erewrite finally_done by (apply aloops_accept; exact Hp). cbn beta iota.
          erewrite interp_bind_done by apply afin. apply interp_ret. }
      unfold tail7. apply run_body_seq_return with (e1 := aens_env e). unfold stmt7.
      apply return_done. rewrite ares_ens. apply interp_ret.
    Qed.
    Theorem post_async_reject n e w x w1 :
      run_posts n c (l_args e) (l_kwargs e) (l_result e) (dbg false w) = Done (inr x) w1 ->
      I n (run_body (tail5 lf c) e VNone) w = Done (inr x) (dbg true w1).
    Proof.
      intro Hp. unfold tail5. erewrite run_body_seq_normal by apply astart. unfold tail6.
      apply run_body_seq_raise. unfold stmt6.
      erewrite finally_done by (apply aloops_reject; exact Hp). cbn beta iota.
      erewrite interp_bind_done.
      2:{ erewrite interp_in_handler_done by apply afin. reflexivity. }
      apply interp_raise.
    Qed.
  End Async.
  Section Iter.
    Import RunIter.
    Variables (lf : nat) (c : contracts).
    Lemma ifin n e w : I n (s_do (R:=value) (fun _ : env => x__ <- Ret true ;; modify (set_debug x__)) e) w = Done (inl (CNormal, e)) (dbg true w).
    Proof. apply do_done. erewrite interp_bind_done by apply interp_ret. apply interp_modify. Qed.
    Lemma istart n e w : I n (loop_stmt2 lf c e) w = Done (inl (CNormal, e)) (dbg false w).
    Proof. unfold loop_stmt2. apply do_done. erewrite interp_bind_done by apply interp_ret. apply interp_modify. Qed.
    Let iposts_env (e : env) := after_loop set_validator (c_posts c) e.
    Let iens_env (e : env) := after_loop set_validator (c_ensures c) (iposts_env e).
    Lemma ires_posts e : l_result (iposts_env e) = l_result e /\ l_args (iposts_env e) = l_args e /\ l_kwargs (iposts_env e) = l_kwargs e.
    Proof.
      unfold iposts_env. repeat split.
      - apply (@after_loop_proj env set_validator _ l_result (fun _ _ => eq_refl)).
      - apply (@after_loop_proj env set_validator _ l_args (fun _ _ => eq_refl)).
      - apply (@after_loop_proj env set_validator _ l_kwargs (fun _ _ => eq_refl)).
    Qed.
    Lemma ires_ens e : l_result (iens_env e) = l_result e.
    Proof.
      unfold iens_env. rewrite (@after_loop_proj env set_validator _ l_result (fun _ _ => eq_refl)). apply ires_posts.
    Qed.

    (* the try-body of statement 6: the two loops *)
    Lemma iloops_accept n e w w1 :
      run_posts n c (l_args e) (l_kwargs e) (l_result e) w = Done (inl tt) w1 ->
      I n (s_seq (s_for set_validator (fun _ => c_posts c) (s_do (R:=value) (fun env => validate (l_validator env) [l_result env] [] None)))
                 (s_for set_validator (fun _ => c_ensures c) (s_do (fun env => validate (l_validator env) (l_args env) (kwargs_with (l_kwargs env) "result" (l_result env)) None))) e) w
      = Done (inl (CNormal, iens_env e)) w1.
    Proof.
      unfold run_posts. intro Hp.
      destruct (run_vals n (c_posts c) [l_result e] [] None w) as [[[]|x] w2|? ? w2|] eqn:E1; try discriminate.
      pose proof (@loop_accept ftab env value set_validator l_validator (fun e => [l_result e]) (fun _ => []) (fun _ => None)
                  (fun _ _ => eq_refl) (fun _ _ => eq_refl) (fun _ _ => eq_refl) (fun _ _ => eq_refl) n (c_posts c) e w w2 E1) as H1.
      erewrite seq_normal by (unfold s_for; exact H1).
      destruct (ires_posts e) as (Hr & Ha & Hk).
      unfold s_for.
      apply (@loop_accept ftab env value set_validator l_validator l_args (fun e => kwargs_with (l_kwargs e) "result" (l_result e)) (fun _ => None)
                  (fun _ _ => eq_refl) (fun _ _ => eq_refl) (fun _ _ => eq_refl) (fun _ _ => eq_refl) n (c_ensures c) (iposts_env e) w2 w1).
      fold (iposts_env e). rewrite Ha, Hk, Hr. exact Hp.
    Qed.
    Lemma iloops_reject n e w x w1 :
      run_posts n c (l_args e) (l_kwargs e) (l_result e) w = Done (inr x) w1 ->
      I n (s_seq (s_for set_validator (fun _ => c_posts c) (s_do (R:=value) (fun env => validate (l_validator env) [l_result env] [] None)))
                 (s_for set_validator (fun _ => c_ensures c) (s_do (fun env => validate (l_validator env) (l_args env) (kwargs_with (l_kwargs env) "result" (l_result env)) None))) e) w
      = Done (inr x) w1.
    Proof.
      unfold run_posts. intro Hp.
      destruct (run_vals n (c_posts c) [l_result e] [] None w) as [[[]|y] w2|? ? w2|] eqn:E1; try discriminate.
      - pose proof (@loop_accept ftab env value set_validator l_validator (fun e => [l_result e]) (fun _ => []) (fun _ => None)
                  (fun _ _ => eq_refl) (fun _ _ => eq_refl) (fun _ _ => eq_refl) (fun _ _ => eq_refl) n (c_posts c) e w w2 E1) as H1.
        erewrite seq_normal by (unfold s_for; exact H1).
        destruct (ires_posts e) as (Hr & Ha & Hk). unfold s_for.
        apply (@loop_reject ftab env value set_validator l_validator l_args (fun e => kwargs_with (l_kwargs e) "result" (l_result e)) (fun _ => None)
                  (fun _ _ => eq_refl) (fun _ _ => eq_refl) (fun _ _ => eq_refl) (fun _ _ => eq_refl) n (c_ensures c) (iposts_env e) w2 x w1).
        fold (iposts_env e). rewrite Ha, Hk, Hr. exact Hp.
      - inversion Hp; subst. apply seq_raise. unfold s_for.
        apply (@loop_reject ftab env value set_validator l_validator (fun e => [l_result e]) (fun _ => []) (fun _ => None)
                  (fun _ _ => eq_refl) (fun _ _ => eq_refl) (fun _ _ => eq_refl) (fun _ _ => eq_refl) n (c_posts c) e w x w1 E1).
    Qed.

    (* one iteration of the wrapper loop, after `result = next(generator)` delivered l_result e *)
    Theorem post_iter_accept n e w w1 :
      run_posts n c (l_args e) (l_kwargs e) (l_result e) (dbg false w) = Done (inl tt) w1 ->
      exists K, I n (loop_tail2 lf c e) w = Susp (l_result e) K (dbg true w1).
    Proof.
      intro Hp. unfold loop_tail2. erewrite seq_normal by apply istart. unfold loop_tail3.
      erewrite seq_normal.
      2:{ unfold loop_stmt3. erewrite finally_done by (apply iloops_accept; exact Hp). cbn beta iota.
          erewrite interp_bind_done by apply ifin. apply interp_ret. }
      unfold loop_tail4, loop_stmt4.
      destruct (@yield_susp ftab env value n (fun env => l_result env) (iens_env e) (dbg true w1)) as (k & Hk).
      destruct (@seq_susp ftab env value n _ (loop_tail5 lf c) _ _ _ _ _ Hk) as (k' & Hk'). cbn beta in Hk'. rewrite ires_ens in Hk'.
      exists k'. exact Hk'.
    Qed.
    Theorem post_iter_reject n e w x w1 :
      run_posts n c (l_args e) (l_kwargs e) (l_result e) (dbg false w) = Done (inr x) w1 ->
      I n (loop_tail2 lf c e) w = Done (inr x) (dbg true w1).
    Proof.
      intro Hp. unfold loop_tail2. erewrite seq_normal by apply istart. unfold loop_tail3.
      apply seq_raise. unfold loop_stmt3.
      erewrite finally_done by (apply iloops_reject; exact Hp). cbn beta iota.
      erewrite interp_bind_done.
      2:{ erewrite interp_in_handler_done by apply ifin. reflexivity. }
      apply interp_raise.
    Qed.
  End Iter.

End Post.
