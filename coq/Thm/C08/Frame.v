(* Thm/C08/Frame.v -- C08 for the synchronous fragment: for every table of contracted functions (bodies and validators are
   arbitrary user code that touches deal's state only through calls), every call tree with recursion and nesting, every
   outcome at every node, the switch, the three streams and the patcher bookkeeping are the same after a call as before. *)
From Coq Require Import List ZArith Bool String Lia.
Import ListNotations.
Require Import Base Prog Sig Interp InterpFacts StmtFacts Model Validators HasPatcher Contracts PatchFacts PatchBracket FrameCore.
Set Implicit Arguments.

(* user code: returns, raises, emits events / creates exception objects / reads the streams, and calls contracted functions *)
Inductive user_ok : forall A, prog A -> Prop :=
| U_Ret A (a : A) : user_ok (Ret a)
| U_Raise A e : user_ok (@Raise A e)
| U_Simple A X (f : st -> X * st) (k : X -> prog A) : benign f -> (forall x, user_ok (k x)) -> user_ok (Vis (Simple f) k)
| U_Call A f a kw (k : value + exn -> prog A) : (forall r, user_ok (k r)) -> user_ok (Vis (Call f a kw) k).

Definition validator_ok (v : validator) : Prop := forall b, user_ok (v_raw v b).
Definition contracts_ok (c : contracts) : Prop :=
  Forall validator_ok (c_pres c) /\ Forall validator_ok (c_posts c) /\ Forall validator_ok (c_ensures c) /\
  Forall validator_ok (c_raises c) /\ Forall validator_ok (c_reasons c).

Section Frame.
  Variable ftab : fid -> option fdef.
  Variable lf : nat.
  Notation I := (interp ftab).
  Notation F := (F ftab).
  Notation Fs := (Fs ftab).

  (* every function of the table is a plain (sync) function; its decorated name runs the generated wrapper over some registry *)
  Definition tab_ok : Prop :=
    forall f d, ftab f = Some d ->
      f_kind d = KSync /\ (forall a k, user_ok (f_body d a k)) /\
      ((exists c, f_wrapper d = RunSync.run lf c /\ contracts_ok c) \/ f_wrapper d = (fun a k => call_func f a k)).
  Hypothesis Htab : tab_ok.

  Definition P (n : nat) : Prop := forall A (p : prog A), user_ok p -> F n p.

  Ltac fs := repeat first
    [ apply Fs_skip | apply Fs_seq | apply Fs_do; intro | apply Fs_assign; intro | apply Fs_return; intro
    | apply Fs_raise; intro | apply Fs_raise_exn | apply Fs_if; [intro| | ] | apply Fs_for | apply Fs_for_list
    | apply Fs_finally | apply F_ret | apply F_raise | apply F_fmap | apply F_get | apply F_log | apply F_fresh
    | apply F_raise_new
    | match goal with |- FrameCore.F _ _ (if ?b then _ else _) => destruct b end
    | apply F_bind; [|intro] ].

  Lemma F_sig_bind n s a k : F n (sig_bind s a k).
  Proof. unfold sig_bind. destruct s as [s|]; [destruct (bind_arguments s a k)|]; fs. Qed.
  Lemma F_args_to_vars n a k s b : F n (ArgsToVars.run a k s b).
  Proof. unfold ArgsToVars.run. apply F_run_body. unfold ArgsToVars.body. fs. apply F_sig_bind. Qed.
  Lemma F_new_contract_error n c m e v p o : F n (new_contract_error c m e v p o).
  Proof. unfold new_contract_error. apply F_fresh. Qed.
  Lemma F_vexception n v m e p : F n (VException.run v m e p).
  Proof.
    unfold VException.run. apply F_run_body. unfold VException.body. fs;
      first [apply F_new_contract_error | unfold new_exception; apply F_fresh].
  Qed.
  Lemma F_call_raw n v a k : P n -> validator_ok v -> F n (call_raw v a k).
  Proof. intros HP Hv. unfold call_raw. destruct (call_bind (v_vsig v) a k); fs. apply HP, Hv. Qed.
  Lemma F_call_raw_short n v ps : P n -> validator_ok v -> F n (call_raw_short v ps).
  Proof. intros HP Hv. unfold call_raw_short. fs. apply HP, Hv. Qed.

  Ltac fv := repeat first
    [ apply F_args_to_vars | apply F_vexception | apply F_sig_bind | apply F_new_contract_error
    | apply F_call_raw; assumption | apply F_call_raw_short; assumption
    | apply Fs_skip | apply Fs_seq | apply Fs_do; intro | apply Fs_assign; intro | apply Fs_return; intro
    | apply Fs_raise; intro | apply Fs_raise_exn | apply Fs_if; [intro| | ] | apply Fs_for | apply Fs_for_list
    | apply Fs_finally | apply F_ret | apply F_raise | apply F_fmap | apply F_get | apply F_log | apply F_fresh
    | apply F_raise_new
    | match goal with |- FrameCore.F _ _ (if ?b then _ else _) => destruct b end
    | apply F_bind; [|intro] ].

  Lemma F_validate n v a k exc : P n -> validator_ok v -> F n (validate v a k exc).
  Proof.
    intros HP Hv. unfold validate. destruct (v_mode v).
    - unfold ExplicitValidation.run. apply F_run_body. unfold ExplicitValidation.body. fv.
    - unfold ShortValidation.run. apply F_run_body. unfold ShortValidation.body. fv.
    - unfold RaisesValidate.run. apply F_run_body. unfold RaisesValidate.body. fv.
  Qed.

  (* ----- calling the original function (self.func): the body is user code, run with one unit of fuel less ----- *)
  Lemma F_call_func n f a k : (forall m, m < n -> P m) -> F n (call_func f a k).
  Proof.
    intros HP w r w' H. unfold call_func in H. apply interp_bind_inv in H.
    assert (Hh : forall x w1, I n (trigger (CallBody f a k)) w = Done (inl x) w1 -> inv_rel (wst w) (wst w1)).
    { intros x w1 Ht. unfold trigger in Ht. rewrite interp_vis in Ht.
      destruct n as [|m]; [cbn in Ht; discriminate|].
      cbn [rec_of handle] in Ht. destruct (ftab f) as [d|] eqn:Ef.
      - destruct (Htab Ef) as (Hk & Hb & _). rewrite Hk in Ht.
        destruct (interp ftab m (f_body d a k) (on_st (emit (EvBody f a k)) w)) as [rb wb|? ? wb|] eqn:Eb; try discriminate.
        + rewrite interp_ret in Ht. inversion Ht; subst.
          eapply inv_trans; [|eapply (HP m (Nat.lt_succ_diag_r m) _ _ (Hb a k)); exact Eb].
          cbn [wst on_st]. apply (@benign_inv unit (fun s => (tt, emit (EvBody f a k) s))). apply benign_emit.
        + rewrite interp_ret in Ht. inversion Ht; subst. apply inv_refl.
      - rewrite interp_ret in Ht. inversion Ht; subst. apply inv_refl. }
    destruct H as [(x & w1 & H1 & H2)|(e & H1 & _)].
    - eapply inv_trans; [eapply Hh; exact H1|]. destruct x; cbn [lift_res] in H2; [rewrite interp_ret in H2|rewrite interp_raise in H2]; inversion H2; subst; apply inv_refl.
    - exfalso. unfold trigger in H1. rewrite interp_vis in H1.
      destruct (handle ftab (rec_of ftab n) (CallBody f a k) w); try discriminate. rewrite interp_ret in H1. discriminate.
  Qed.

  (* ----- the generated wrapper ----- *)
  Section Wrapper.
    Import RunSync.
    Variables (n : nat) (c : contracts).
    Hypothesis HP : forall m, m <= n -> P m.
    Hypothesis Hc : contracts_ok c.
    Let HPn : P n := HP (le_n n).
    Let HPlt : forall m, m < n -> P m := fun m H => HP (Nat.lt_le_incl _ _ H).

    Lemma val_in l v : Forall validator_ok l -> In v l -> validator_ok v.
    Proof. intros H Hin. rewrite Forall_forall in H. apply H. exact Hin. Qed.

    (* the validator loops: every element of the list is user code *)
    Lemma Fs_val_loop (l : list validator) (body : stmt env value) :
      Forall validator_ok l ->
      (forall v e, validator_ok v -> F n (body (set_validator v e))) ->
      Fs n (s_for_list set_validator l body).
    Proof.
      intros Hl Hb. induction Hl as [|v t Hv _ IH]; intro e; cbn [s_for_list]; [apply F_ret|].
      apply F_bind; [apply Hb; exact Hv|]. intros [ct e1]. cbn. destruct ct; [apply IH|apply F_ret].
    Qed.
    Lemma Fs_for_val (l : list validator) (body : stmt env value) :
      Forall validator_ok l ->
      (forall v e, validator_ok v -> F n (body (set_validator v e))) ->
      Fs n (s_for set_validator (fun _ : env => l) body).
    Proof. intros Hl Hb e. unfold s_for. apply Fs_val_loop; assumption. Qed.
    Lemma F_validate_step v e (geta : env -> pargs) (getk : env -> pkwargs) (gete : env -> option exn) :
      validator_ok v ->
      F n (s_do (R:=value) (fun e => validate (l_validator e) (geta e) (getk e) (gete e)) (set_validator v e)).
    Proof. intro Hv. unfold s_do. apply F_bind; [cbn [l_validator set_validator]; apply F_validate; assumption|intro; apply F_ret]. Qed.

    Let Hpres := proj1 Hc.
    Let Hposts := proj1 (proj2 Hc).
    Let Hens := proj1 (proj2 (proj2 Hc)).
    Let Hraises := proj1 (proj2 (proj2 (proj2 Hc))).
    Let Hreasons := proj2 (proj2 (proj2 (proj2 Hc))).

    Definition patch_w (w : world) : world := match c_patcher c with Some p => on_st (patch_st p) w | None => w end.
    Definition unpatch_w (w : world) : world := match c_patcher c with Some p => on_st (unpatch_st p) w | None => w end.

    (* deterministic statements *)
    Lemma set_dbg_stmt b e w : I n (s_do (R:=value) (fun _ : env => x__ <- Ret b ;; modify (set_debug x__)) e) w = Done (inl (CNormal, e)) (on_st (set_debug b) w).
    Proof. apply do_done. erewrite interp_bind_done by apply interp_ret. apply interp_modify. Qed.
    Lemma patch_stmt e w : I n (stmt3 lf c e) w = Done (inl (CNormal, e)) (patch_w w).
    Proof.
      unfold stmt3, patch_w. erewrite if_done by apply interp_ret. unfold with_patcher.
      destruct (c_patcher c) as [p|]; cbn [is_some]; [apply do_done, patch_interp|apply interp_ret].
    Qed.
    Lemma unpatch_fin e w :
      I n (s_if (R:=value) (fun _ : env => Ret (is_some (c_patcher c))) (s_do (fun _ => with_patcher (c_patcher c) Unpatch.run)) s_skip e) w
      = Done (inl (CNormal, e)) (unpatch_w w).
    Proof.
      unfold unpatch_w. erewrite if_done by apply interp_ret. unfold with_patcher.
      destruct (c_patcher c) as [p|]; cbn [is_some]; [apply do_done, unpatch_interp|apply interp_ret].
    Qed.
    Lemma bracket_patch_w w w2 : inv_rel (wst (patch_w w)) (wst w2) -> inv_rel (wst w) (wst (unpatch_w w2)).
    Proof. unfold patch_w, unpatch_w. destruct (c_patcher c) as [p|]; [apply bracket_patch|auto]. Qed.

    Ltac fvl := repeat first
      [ apply F_call_func; exact HPlt
      | match goal with |- FrameCore.F _ _ (?t ?e) =>
          lazymatch t with
          | s_try _ _ => refine ((_ : Fs n t) e)
          | s_seq _ _ => refine ((_ : Fs n t) e)
          | s_finally _ _ => refine ((_ : Fs n t) e)
          | s_for _ _ _ => refine ((_ : Fs n t) e)
          end end
      | apply Fs_for_val; [assumption | let v := fresh "v" in let e := fresh "e" in let Hv := fresh "Hv" in intros v e Hv]
      | apply F_validate_step; assumption
      | apply Fs_try; [|repeat first [apply Forall_nil | apply Forall_cons; [cbn [snd]; intro|]]]
      | match goal with |- FrameCore.F _ _ (s_if _ _ _ (set_validator _ _)) => unfold s_if; apply F_bind; [apply F_ret|intros []] end
      | apply F_args_to_vars | apply F_vexception | apply F_sig_bind | apply F_new_contract_error
      | apply Fs_skip | apply Fs_seq | apply Fs_do; intro | apply Fs_assign; intro | apply Fs_return; intro
      | apply Fs_raise; intro | apply Fs_raise_exn | apply Fs_if; [intro| | ]
      | apply Fs_finally | apply F_ret | apply F_raise | apply F_fmap | apply F_get | apply F_log | apply F_fresh
      | apply F_raise_new
      | match goal with |- FrameCore.F _ _ (if ?b then _ else _) => destruct b end ].

    (* from a hypothesis  I n (t e) w = Done r w1  where t is a piece of generated code: the relation holds across it *)
    Ltac frame_of H :=
      match type of H with
      | interp _ _ ?p ?w = Done _ ?w1 =>
          let HF := fresh "HF" in
          assert (HF : F n p) by (first [apply F_run_body | idtac]; fvl);
          generalize (HF _ _ _ H); clear HF
      end.

    Theorem wrapper_frame a k : F n (run lf c a k).
    Proof.
      intros w r w' H. unfold run, body in H.
      set (e0 := set_kwargs k (set_args a env0)) in *.
      destruct (debug (wst w)) eqn:Hd.
      2:{ (* contracts disabled: the wrapper is the original call *)
          unfold tail0 in H. apply run_body_seq_inv in H.
          assert (Hs0 : Fs n (stmt0 lf c)) by (unfold stmt0; fvl).
          destruct H as [(e1 & w1 & Ha & Hb)|[(v & e1 & Ha & _)|(x & Ha & _)]]; try (eapply Hs0; exact Ha).
          exfalso. unfold stmt0 in Ha. erewrite if_done in Ha.
          2:{ unfold fmap. erewrite interp_bind_done by apply interp_get. rewrite Hd. apply interp_ret. }
          unfold s_return in Ha. apply interp_bind_inv in Ha.
          destruct Ha as [(v & w2 & _ & Ha)|(x & _ & Ha)]; [rewrite interp_ret in Ha|]; discriminate. }
      (* statement 0: the switch is on; statement 1: state.debug = False *)
      unfold tail0 in H. erewrite run_body_seq_normal in H.
      2:{ unfold stmt0. erewrite if_done.
          2:{ unfold fmap. erewrite interp_bind_done by apply interp_get. rewrite Hd. apply interp_ret. }
          apply interp_ret. }
      unfold tail1 in H. erewrite run_body_seq_normal in H by (unfold stmt1; apply set_dbg_stmt).
      (* statement 2: the pre block, a debug bracket *)
      unfold tail2 in H. apply run_body_seq_inv in H.
      assert (B2 : forall r0 w1, I n (stmt2 lf c e0) (on_st (set_debug false) w) = Done r0 w1 -> inv_rel (wst w) (wst w1) /\ debug (wst w1) = true).
      { intros r0 w1 Hs. unfold stmt2 in Hs. apply finally_total_inv with (G := on_st (set_debug true)) in Hs; [|intros; apply set_dbg_stmt].
        destruct Hs as (r1 & w2 & Hl & -> & _). frame_of Hl. intro Hinv. split; [|reflexivity].
        cbn [wst on_st] in *. apply bracket_debug; assumption. }
      destruct H as [(e1 & w1 & Ha & H)|[(v & e1 & Ha & _)|(x & Ha & _)]]; try (apply (B2 _ _ Ha)).
      destruct (B2 _ _ Ha) as [I1 D1]. clear B2 Ha.
      (* statement 3: patch; statement 4: the body call, a patch bracket *)
      unfold tail3 in H. erewrite run_body_seq_normal in H by apply patch_stmt.
      unfold tail4 in H. apply run_body_seq_inv in H.
      assert (B4 : forall r0 w2, I n (stmt4 lf c e1) (patch_w w1) = Done r0 w2 -> inv_rel (wst w1) (wst w2)).
      { intros r0 w2 Hs. unfold stmt4 in Hs. apply finally_total_inv with (G := unpatch_w) in Hs; [|intros; apply unpatch_fin].
        destruct Hs as (r1 & w3 & Ht & -> & _).
        frame_of Ht. intro Hinv. apply bracket_patch_w. exact Hinv. }
      destruct H as [(e2 & w2 & Ha & H)|[(v & e2 & Ha & _)|(x & Ha & _)]];
        try (eapply inv_trans; [exact I1|apply (B4 _ _ Ha)]).
      pose proof (B4 _ _ Ha) as I2. clear B4 Ha.
      assert (D2 : debug (wst w2) = true) by (destruct I2 as [D _]; congruence).
      (* statement 5: state.debug = False; statement 6: the post block, a debug bracket; statement 7: return *)
      unfold tail5 in H. erewrite run_body_seq_normal in H by (unfold stmt5; apply set_dbg_stmt).
      unfold tail6 in H. apply run_body_seq_inv in H.
      assert (B6 : forall r0 w3, I n (stmt6 lf c e2) (on_st (set_debug false) w2) = Done r0 w3 -> inv_rel (wst w2) (wst w3)).
      { intros r0 w3 Hs. unfold stmt6 in Hs. apply finally_total_inv with (G := on_st (set_debug true)) in Hs; [|intros; apply set_dbg_stmt].
        destruct Hs as (r1 & w4 & Hl & -> & _). frame_of Hl. intro Hinv.
        cbn [wst on_st] in *. apply bracket_debug; assumption. }
      destruct H as [(e3 & w3 & Ha & H)|[(v & e3 & Ha & _)|(x & Ha & _)]];
        try (eapply inv_trans; [exact I1|eapply inv_trans; [exact I2|apply (B6 _ _ Ha)]]).
      pose proof (B6 _ _ Ha) as I3. clear B6 Ha.
      unfold tail7 in H. apply run_body_seq_inv in H.
      assert (Hs7 : Fs n (stmt7 lf c)) by (unfold stmt7; fvl).
      assert (I4 : forall r0 w4, I n (stmt7 lf c e3) w3 = Done r0 w4 -> inv_rel (wst w) (wst w4)).
      { intros r0 w4 Hs. eapply inv_trans; [exact I1|eapply inv_trans; [exact I2|eapply inv_trans; [exact I3|eapply Hs7; exact Hs]]]. }
      destruct H as [(e4 & w4 & Ha & H)|[(v & e4 & Ha & _)|(x & Ha & _)]]; try (apply (I4 _ _ Ha)).
      unfold tail8 in H. rewrite run_body_skip in H. inversion H; subst. apply (I4 _ _ Ha).
    Qed.
  End Wrapper.

  (* ----- every reachable execution: induction on fuel, then on the user program ----- *)
  Theorem frame_all : forall n, P n.
  Proof.
    induction n as [n IH] using lt_wf_ind. intros A p Hok.
    induction Hok as [A a|A e|A X f k Hb _ IHk|A f a kw k _ IHk].
    - apply F_ret.
    - apply F_raise.
    - apply F_simple; assumption.
    - intros w r w' H. rewrite interp_vis in H.
      destruct (handle ftab (rec_of ftab n) (Call f a kw) w) as [x w1|? ? ?|] eqn:E; try discriminate.
      eapply inv_trans; [|eapply IHk; exact H].
      destruct n as [|m]; [cbn in E; discriminate|].
      cbn [rec_of handle] in E. destruct (ftab f) as [d|] eqn:Ef; [|inversion E; subst; apply inv_refl].
      destruct (Htab Ef) as (Hk & Hbody & Hw). rewrite Hk in E.
      destruct (interp ftab m (f_wrapper d a kw) w) as [rw ww|? ? ww|] eqn:Ew; try discriminate;
        inversion E; subst; [|apply inv_refl].
      assert (HPm : forall m', m' <= m -> P m') by (intros m' Hle; apply IH; lia).
      destruct Hw as [(c & Hc1 & Hc2)|Hc1]; rewrite Hc1 in Ew.
      + eapply (wrapper_frame HPm Hc2); exact Ew.
      + eapply (@F_call_func m f a kw); [intros m' Hlt; apply IH; lia|exact Ew].
  Qed.

  (* the statement for a top-level call of a decorated function *)
  Corollary call_frame n f a kw w r w' :
    I n (call_decorated f a kw) w = Done r w' -> inv_rel (wst w) (wst w').
  Proof.
    apply (@frame_all n _ (call_decorated f a kw)).
    unfold call_decorated, trigger. cbn [bind]. apply U_Call. intros [v|e]; cbn; constructor.
  Qed.
End Frame.
