(* Thm/C08/FrameCore.v -- compositional frame reasoning: a relation on process states that every piece of user code and of
   generated code preserves, closed under the program and statement combinators. *)
From Coq Require Import List ZArith Bool String Lia.
Import ListNotations.
Require Import Base Prog Sig Interp InterpFacts StmtFacts Model HasPatcher PatchFacts PatchBracket.
Set Implicit Arguments.

(* everything C08 speaks about except the switch: removed flag, the three streams, and the bookkeeping of active patchers *)
Definition inv_nd (s s' : st) : Prop :=
  removed s' = removed s /\ streams s' = streams s /\
  (forall id, depth id s' = depth id s) /\
  (forall id, 1 <= depth id s -> get_slot id s' = get_slot id s).
Definition inv_rel (s s' : st) : Prop := debug s' = debug s /\ inv_nd s s'.

Lemma inv_nd_refl s : inv_nd s s.
Proof. repeat split; auto. Qed.
Lemma inv_nd_trans a b c : inv_nd a b -> inv_nd b c -> inv_nd a c.
Proof.
  intros (R1 & S1 & D1 & G1) (R2 & S2 & D2 & G2). split; [congruence|]. split; [congruence|]. split.
  - intro id. rewrite D2. apply D1.
  - intros id H. rewrite G2 by (rewrite D1; exact H). apply G1. exact H.
Qed.
Lemma inv_refl s : inv_rel s s.
Proof. split; [reflexivity|apply inv_nd_refl]. Qed.
Lemma inv_trans a b c : inv_rel a b -> inv_rel b c -> inv_rel a c.
Proof. intros [D1 N1] [D2 N2]. split; [congruence|eapply inv_nd_trans; eassumption]. Qed.

(* a state effect that touches only the trace and the identity counter *)
Definition benign X (f : st -> X * st) : Prop :=
  forall s, debug (snd (f s)) = debug s /\ removed (snd (f s)) = removed s /\ streams (snd (f s)) = streams s /\ slots (snd (f s)) = slots s.
Lemma benign_inv X (f : st -> X * st) s : benign f -> inv_rel s (snd (f s)).
Proof.
  intro B. destruct (B s) as (D & R & S & L). split; [exact D|]. repeat split; auto.
  - intro id. unfold depth, get_slot. rewrite L. reflexivity.
  - intros id _. unfold get_slot. rewrite L. reflexivity.
Qed.

(* ----- the two brackets of the wrappers ----- *)
Lemma bracket_debug s s2 : debug s = true -> inv_rel (set_debug false s) s2 -> inv_rel s (set_debug true s2).
Proof.
  intros Hd [D (R & St & Dp & G)]. split; [cbn; symmetry; exact Hd|]. split; [exact R|]. split; [exact St|]. split.
  - intro id. exact (Dp id).
  - intros id H. exact (G id H).
Qed.

Lemma slot_eta x : slot_depth (sv_depth x) x = x.
Proof. destruct x; reflexivity. Qed.

Lemma bracket_patch p s s2 : inv_rel (patch_st p s) s2 -> inv_rel s (unpatch_st p s2).
Proof.
  intros [D (R & St & Dp & G)].
  destruct (patch_switch p s) as [Pd Pr]. destruct (unpatch_switch p s2) as [Ud Ur].
  destruct (depth (p_id p) s) as [|d] eqn:Hd.
  - (* outermost use *)
    pose proof (@patch_depth_outer p s Hd) as H1.
    assert (Hg : get_slot (p_id p) s2 = get_slot (p_id p) (patch_st p s)) by (apply G; rewrite H1; auto).
    destruct (@patch_unpatch_outer p s s2 Hd St Hg) as (Rs & Rd & Rdbg).
    split; [congruence|]. split; [congruence|]. split; [exact Rs|]. split.
    + intro id. destruct (Nat.eq_dec (p_id p) id) as [<-|Hne]; [congruence|].
      unfold depth. rewrite (@unpatch_other p id s2 Hne). fold (depth id s2). rewrite Dp. unfold depth. rewrite (@patch_other p id s Hne). reflexivity.
    + intros id Hact. destruct (Nat.eq_dec (p_id p) id) as [<-|Hne]; [rewrite Hd in Hact; inversion Hact|].
      rewrite (@unpatch_other p id s2 Hne). rewrite G by (unfold depth; rewrite (@patch_other p id s Hne); exact Hact).
      apply (@patch_other p id s Hne).
  - (* nested use of a patcher that is already active *)
    assert (Hge : 1 <= depth (p_id p) s) by (rewrite Hd; auto with arith).
    rewrite (@patch_nested p s Hge) in *.
    assert (Hd2 : depth (p_id p) s2 = S (S d)).
    { rewrite Dp. unfold depth, bump_depth. rewrite get_put_same. cbn. unfold depth in Hd. rewrite Hd. reflexivity. }
    rewrite (@unpatch_nested p s2) by (rewrite Hd2; auto with arith).
    split; [exact D|]. split; [exact R|]. split; [exact St|]. split.
    + intro id. destruct (Nat.eq_dec (p_id p) id) as [<-|Hne].
      * unfold depth at 1. unfold bump_depth. rewrite get_put_same. cbn. fold (depth (p_id p) s2). rewrite Hd2, Hd. reflexivity.
      * unfold depth. rewrite (@bump_other (p_id p) id Nat.pred s2 Hne). fold (depth id s2). rewrite Dp. unfold depth. rewrite (@bump_other (p_id p) id S s Hne). reflexivity.
    + intros id Hact. destruct (Nat.eq_dec (p_id p) id) as [<-|Hne].
      * assert (Hg : get_slot (p_id p) s2 = get_slot (p_id p) (bump_depth (p_id p) S s)).
        { apply G. unfold depth, bump_depth. rewrite get_put_same. cbn. auto with arith. }
        unfold bump_depth at 1. rewrite get_put_same. rewrite Hg. unfold bump_depth. rewrite get_put_same.
        destruct (get_slot (p_id p) s) as [a b c0 d0] eqn:Es. cbn. reflexivity.
      * rewrite (@bump_other (p_id p) id Nat.pred s2 Hne). rewrite G by (unfold depth; rewrite (@bump_other (p_id p) id S s Hne); exact Hact).
        apply (@bump_other (p_id p) id S s Hne).
Qed.

Section Core.
  Variable ftab : fid -> option fdef.
  Notation I := (interp ftab).

  Definition F (n : nat) A (p : prog A) : Prop := forall w r w', I n p w = Done r w' -> inv_rel (wst w) (wst w').

  Lemma F_ret n A (a : A) : F n (Ret a).
  Proof. intros w r w' H. rewrite interp_ret in H. inversion H; subst. apply inv_refl. Qed.
  Lemma F_raise n A e : F n (@Raise A e).
  Proof. intros w r w' H. rewrite interp_raise in H. inversion H; subst. apply inv_refl. Qed.
  Lemma F_bind n A B (p : prog A) (f : A -> prog B) : F n p -> (forall a, F n (f a)) -> F n (bind p f).
  Proof.
    intros Hp Hf w r w' H. apply interp_bind_inv in H. destruct H as [(a & w1 & H1 & H2)|(e & H1 & _)].
    - eapply inv_trans; [eapply Hp; exact H1|eapply Hf; exact H2].
    - eapply Hp; exact H1.
  Qed.
  Lemma F_catch n A (p : prog A) : F n p -> F n (catch p).
  Proof. intros Hp w r w' H. apply interp_catch_inv in H. destruct H as (r0 & _ & H). eapply Hp; exact H. Qed.
  Lemma F_in_handler n A cur (p : prog A) : F n p -> F n (in_handler cur p).
  Proof. intros Hp w r w' H. apply interp_in_handler_inv in H. destruct H as (r0 & H & _). eapply Hp; exact H. Qed.
  Lemma F_try_except n A (p : prog A) h : F n p -> (forall e q, h e = Some q -> F n q) -> F n (try_except p h).
  Proof.
    intros Hp Hh w r w' H. apply interp_try_except_inv in H. destruct H as [(a & H & _)|(e & w1 & H1 & H2)].
    - eapply Hp; exact H.
    - destruct (h e) as [q|] eqn:E.
      + eapply inv_trans; [eapply Hp; exact H1|eapply (Hh e q E); exact H2].
      + destruct H2 as [_ <-]. eapply Hp; exact H1.
  Qed.
  Lemma F_simple n A X (f : st -> X * st) (k : X -> prog A) : benign f -> (forall x, F n (k x)) -> F n (Vis (Simple f) k).
  Proof.
    intros B Hk w r w' H. rewrite interp_simple in H.
    eapply inv_trans; [|eapply Hk; exact H]. cbn [wst with_st]. apply benign_inv. exact B.
  Qed.
  Lemma F_act n X (f : st -> X * st) : benign f -> F n (act f).
  Proof. intro B. unfold act, trigger. apply F_simple; [exact B|intro; apply F_ret]. Qed.
  Lemma benign_get X (f : st -> X) : benign (fun w => (f w, w)).
  Proof. intro s. cbn. auto. Qed.
  Lemma benign_emit ev : benign (fun w => (tt, emit ev w)).
  Proof. intro s. cbn. auto. Qed.
  Lemma benign_fresh e : benign (fun w => (with_id e (next_id w), bump w)).
  Proof. intro s. cbn. auto. Qed.
  Lemma F_get n X (f : st -> X) : F n (get f).
  Proof. apply F_act, benign_get. Qed.
  Lemma F_log n ev : F n (log ev).
  Proof. apply F_act, benign_emit. Qed.
  Lemma F_fresh n e : F n (fresh_exn e).
  Proof. apply F_act, benign_fresh. Qed.
  Lemma F_raise_new n A e : F n (@raise_new A e).
  Proof. unfold raise_new. apply F_bind; [apply F_fresh|intro; apply F_raise]. Qed.
  Lemma F_fmap n A B (f : A -> B) p : F n p -> F n (fmap f p).
  Proof. intro H. unfold fmap. apply F_bind; [exact H|intro; apply F_ret]. Qed.

  (* statements *)
  Section Stmt.
    Variables env R : Type.
    Definition Fs (n : nat) (s : stmt env R) : Prop := forall e, F n (s e).
    Lemma Fs_skip n : Fs n s_skip.
    Proof. intro e. apply F_ret. Qed.
    Lemma Fs_seq n (a b : stmt env R) : Fs n a -> Fs n b -> Fs n (s_seq a b).
    Proof. intros Ha Hb e. unfold s_seq. apply F_bind; [apply Ha|]. intros [c e1]. cbn. destruct c; [apply Hb|apply F_ret]. Qed.
    Lemma Fs_do n (p : env -> prog unit) : (forall e, F n (p e)) -> Fs n (s_do p).
    Proof. intros H e. unfold s_do. apply F_bind; [apply H|intro; apply F_ret]. Qed.
    Lemma Fs_assign n X (set : X -> env -> env) (p : env -> prog X) : (forall e, F n (p e)) -> Fs n (s_assign set p).
    Proof. intros H e. unfold s_assign. apply F_bind; [apply H|intro; apply F_ret]. Qed.
    Lemma Fs_return n (p : env -> prog R) : (forall e, F n (p e)) -> Fs n (s_return p).
    Proof. intros H e. unfold s_return. apply F_bind; [apply H|intro; apply F_ret]. Qed.
    Lemma Fs_raise n (p : env -> prog exn) : (forall e, F n (p e)) -> Fs n (s_raise (R:=R) p).
    Proof. intros H e. unfold s_raise. apply F_bind; [apply H|intro; apply F_raise]. Qed.
    Lemma Fs_raise_exn n x : Fs n (s_raise_exn x).
    Proof. intro e. apply F_raise. Qed.
    Lemma Fs_if n (c : env -> prog bool) (a b : stmt env R) : (forall e, F n (c e)) -> Fs n a -> Fs n b -> Fs n (s_if c a b).
    Proof. intros Hc Ha Hb e. unfold s_if. apply F_bind; [apply Hc|]. intros []; [apply Ha|apply Hb]. Qed.
    Lemma Fs_for_list n X (set : X -> env -> env) l (body : stmt env R) : Fs n body -> Fs n (s_for_list set l body).
    Proof.
      intro Hb. induction l as [|x xs IH]; intro e; cbn [s_for_list]; [apply F_ret|].
      apply F_bind; [apply Hb|]. intros [c e1]. cbn. destruct c; [apply IH|apply F_ret].
    Qed.
    Lemma Fs_for n X (set : X -> env -> env) (l : env -> list X) (body : stmt env R) : Fs n body -> Fs n (s_for set l body).
    Proof. intros Hb e. unfold s_for. apply Fs_for_list. exact Hb. Qed.
    Lemma Fs_finally n (a f : stmt env R) : Fs n a -> Fs n f -> Fs n (s_finally a f).
    Proof.
      intros Ha Hf e. unfold s_finally. apply F_bind; [apply F_catch, Ha|].
      intros [[c e1]|ex].
      - apply F_bind; [apply Hf|]. intros [c2 e2]. cbn. destruct c2; apply F_ret.
      - apply F_bind; [apply F_in_handler, Hf|]. intros [c2 e2]. cbn. destruct c2; [apply F_raise|apply F_ret].
    Qed.
    Lemma Fs_try n (a : stmt env R) (hs : list (handler env R)) :
      Fs n a -> Forall (fun h => forall x, Fs n (snd h x)) hs -> Fs n (s_try a hs).
    Proof.
      intros Ha Hh e. unfold s_try. apply F_try_except; [apply Ha|].
      intros ex q. induction Hh as [|[[m set] body] rest Hb _ IH]; cbn [pick]; [discriminate|].
      destruct (m ex).
      - intro E; inversion E; subst. apply F_in_handler. apply (Hb ex).
      - exact IH.
    Qed.
    Lemma F_run_body n (s : stmt env R) e d : Fs n s -> F n (run_body s e d).
    Proof. intro H. unfold run_body. apply F_bind; [apply H|intro; apply F_ret]. Qed.
  End Stmt.
End Core.
