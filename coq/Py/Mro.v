(* Py/Mro.v -- C3 linearisation (type.mro()), as CPython computes it. Hand-written model of CPython, validated against
   CPython on random hierarchies by the C11 family; not verified. *)
From Coq Require Import List Bool String.
Import ListNotations.
Require Import Base.
Open Scope string_scope.

Definition in_tail (c : string) (l : list string) : bool := match l with [] => false | _ :: t => existsb (String.eqb c) t end.
(* a good head: the head of some list that appears in the tail of no list *)
Fixpoint pick_head (cands : list (list string)) (all : list (list string)) : option string :=
  match cands with
  | [] => None
  | [] :: rest => pick_head rest all
  | (c :: _) :: rest => if existsb (in_tail c) all then pick_head rest all else Some c
  end.
Definition drop_head (c : string) (l : list string) : list string :=
  match l with x :: t => if String.eqb x c then t else l | [] => [] end.
Fixpoint merge (fuel : nat) (seqs : list (list string)) : option (list string) :=
  match fuel with
  | O => None
  | S n =>
      let seqs := filter (fun l => match l with [] => false | _ => true end) seqs in
      match seqs with
      | [] => Some []
      | _ => match pick_head seqs seqs with
             | None => None                       (* inconsistent hierarchy: TypeError *)
             | Some c => match merge n (map (drop_head c) seqs) with Some r => Some (c :: r) | None => None end
             end
      end
  end.
(* classes are given in definition order: (name, bases); mro of "object" is ["object"] *)
Fixpoint mro_table (fuel : nat) (classes : list (string * list string)) (acc : list (string * list string)) : list (string * list string) :=
  match classes with
  | [] => acc
  | (n, bases) :: rest =>
      let bases := match bases with [] => ["object"] | _ => bases end in
      let lins := map (fun b => match lookup b acc with Some m => m | None => [b] end) bases in
      let m := match merge fuel (lins ++ [bases]) with Some r => n :: r | None => [n] end in
      mro_table fuel rest (acc ++ [(n, m)])
  end.
Definition mro_of (classes : list (string * list string)) (c : string) : list string :=
  match lookup c (mro_table 50 classes [("object", ["object"])]) with Some m => m | None => [c] end.
