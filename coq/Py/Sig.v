(* Py/Sig.v -- the slice of CPython call binding that deal relies on: what a call binds (call_bind), what
   inspect.Signature.bind accepts and returns (bind_arguments), BoundArguments.apply_defaults.
   Hand-written model of CPython, validated differentially against CPython 3.12 (family "sig"); not verified. *)
From Coq Require Import List ZArith Bool String.
Import ListNotations.
Require Import Base.
Open Scope string_scope.

Inductive pkind := PosOnly | PosOrKw | VarPos | KwOnly | VarKw.
Record param := { p_name : string; p_kind : pkind; p_default : option value }.
Definition sig := list param.
Definition binding := list (string * value).

Definition kind_eqb (a b : pkind) : bool :=
  match a, b with PosOnly, PosOnly | PosOrKw, PosOrKw | VarPos, VarPos | KwOnly, KwOnly | VarKw, VarKw => true | _, _ => false end.
Definition has_kind (k : pkind) (s : sig) := existsb (fun p => kind_eqb (p_kind p) k) s.
Definition is_positional (p : param) := match p_kind p with PosOnly | PosOrKw => true | _ => false end.
Definition is_named (p : param) := match p_kind p with PosOrKw | KwOnly => true | _ => false end.
Definition param_names (s : sig) := map p_name s.

(* step 1: positional arguments *)
Fixpoint assign_pos (ps : list param) (args : list value) : binding * list value :=
  match ps, args with
  | p :: ps', a :: args' => let (b, rest) := assign_pos ps' args' in ((p_name p, a) :: b, rest)
  | _, _ => ([], args)
  end.

(* step 2: keyword arguments. [strict]: inspect refuses a keyword naming an unfilled positional-only parameter *)
Fixpoint assign_kw (strict : bool) (s : sig) (kws : list (string * value)) (b : binding) (extra : list (string * value))
  : option (binding * list (string * value)) :=
  match kws with
  | [] => Some (b, extra)
  | (n, v) :: rest =>
    match find (fun p => String.eqb (p_name p) n) s with
    | Some p =>
      if is_named p then
        match lookup n b with
        | Some _ => None                                   (* multiple values for argument *)
        | None => assign_kw strict s rest (b ++ [(n, v)])%list extra
        end
      else match p_kind p with
           | PosOnly =>
             if has_kind VarKw s
             then (match lookup n b with
                   | Some _ => assign_kw strict s rest b (extra ++ [(n, v)])%list
                   | None => if strict then None else assign_kw strict s rest b (extra ++ [(n, v)])%list
                   end)
             else None
           | _ => (* the name of the *args / **kw parameter used as a keyword *)
             if has_kind VarKw s then assign_kw strict s rest b (extra ++ [(n, v)])%list else None
           end
    | None => if has_kind VarKw s then assign_kw strict s rest b (extra ++ [(n, v)])%list else None
    end
  end.

(* the function's own view: every parameter bound, in signature order *)
Fixpoint finish (s : sig) (b : binding) (rest_pos : list value) (extra : list (string * value)) : option binding :=
  match s with
  | [] => Some []
  | p :: s' =>
    match finish s' b rest_pos extra with
    | None => None
    | Some tl =>
      match p_kind p with
      | VarPos => Some ((p_name p, VTuple rest_pos) :: tl)
      | VarKw => Some ((p_name p, VDict extra) :: tl)
      | _ => match lookup (p_name p) b with
             | Some v => Some ((p_name p, v) :: tl)
             | None => match p_default p with Some d => Some ((p_name p, d) :: tl) | None => None end
             end
      end
    end
  end.

Definition is_nil {X} (l : list X) := match l with [] => true | _ => false end.
Definition bind_gen (strict : bool) (s : sig) (args : list value) (kws : list (string * value)) : option binding :=
  let (b0, rest_pos) := assign_pos (filter is_positional s) args in
  if negb (has_kind VarPos s) && negb (is_nil rest_pos) then None else
  match assign_kw strict s kws b0 [] with
  | None => None
  | Some (b, extra) => finish s b rest_pos extra
  end.
Definition call_bind := bind_gen false.       (* what a real call binds: None = TypeError *)
Definition inspect_full := bind_gen true.     (* inspect.Signature.bind + apply_defaults *)

(* inspect.Signature.bind(...).arguments: only what was passed (empty *args / **kw omitted), in signature order *)
Fixpoint passed (s : sig) (b : binding) (rest_pos : list value) (extra : list (string * value)) : binding :=
  match s with
  | [] => []
  | p :: s' =>
    let tl := passed s' b rest_pos extra in
    match p_kind p with
    | VarPos => if is_nil rest_pos then tl else (p_name p, VTuple rest_pos) :: tl
    | VarKw => if is_nil extra then tl else (p_name p, VDict extra) :: tl
    | _ => match lookup (p_name p) b with Some v => (p_name p, v) :: tl | None => tl end
    end
  end.
Definition bind_arguments (s : sig) (args : list value) (kws : list (string * value)) : option binding :=
  match inspect_full s args kws with
  | None => None
  | Some _ =>
    let (b0, rest_pos) := assign_pos (filter is_positional s) args in
    match assign_kw true s kws b0 [] with
    | None => None
    | Some (b, extra) => Some (passed s b rest_pos extra)
    end
  end.
(* BoundArguments.apply_defaults: signature order; () for *args, {} for **kw, the default otherwise *)
Fixpoint apply_defaults (s : sig) (b : binding) : binding :=
  match s with
  | [] => []
  | p :: s' =>
    let tl := apply_defaults s' b in
    match lookup (p_name p) b with
    | Some v => (p_name p, v) :: tl
    | None =>
      match p_kind p with
      | VarPos => (p_name p, VTuple []) :: tl
      | VarKw => (p_name p, VDict []) :: tl
      | _ => match p_default p with Some d => (p_name p, d) :: tl | None => tl end
      end
    end
  end.

(* the arguments a validator written "with the same signature" is called with when deal passes ( *args, **kwargs)
   through: the binding dictionary seen by a function of signature s; None = TypeError *)
Definition binding_value (b : binding) : value := VDict b.
