(* Props/C03.v -- property theorems for C03 (exception contracts classify every escaping exception).
   Statements only; proofs in Thm/C03/Except.v. About statement 4 (the try/except/finally around the body call) of RunSync /
   RunAsync and the corresponding statement of the RunIter loop, regenerated from deal/_runtime/_contracts.py, and about
   RaisesValidator._validate regenerated from _validators.py. x is the exception raised by the body; classes are arbitrary. *)
From Coq Require Import List ZArith Bool String.
Import ListNotations.
Require Import Base Prog Sig Interp InterpFacts Model Validators HasPatcher Contracts Scenario Loops PatchFacts Except.

Section S.
Variable ftab : fid -> option fdef.
Notation I := (interp ftab).

Theorem C03_contract_error_untouched_sync : forall lf c n e w x w1,
  I n (call_func (c_func c) (RunSync.l_args e) (RunSync.l_kwargs e)) w = Done (inr x) w1 ->
  isinstance x "ContractError" = true ->
  I n (RunSync.stmt4 lf c e) w = Done (inr x) (unpatch_w c w1).
Proof. intros. eapply contract_error_untouched; eassumption. Qed.

Theorem C03_base_exception_untouched_sync : forall lf c n e w x w1,
  I n (call_func (c_func c) (RunSync.l_args e) (RunSync.l_kwargs e)) w = Done (inr x) w1 ->
  isinstance x "ContractError" = false -> isinstance x "Exception" = false ->
  I n (RunSync.stmt4 lf c e) w = Done (inr x) (unpatch_w c w1).
Proof. intros. eapply base_exception_untouched; eassumption. Qed.

Theorem C03_undeclared_replaced_sync : forall lf c n e w x w1 y w2,
  I n (call_func (c_func c) (RunSync.l_args e) (RunSync.l_kwargs e)) w = Done (inr x) w1 ->
  isinstance x "ContractError" = false -> isinstance x "Exception" = true ->
  run_vals ftab n (c_raises c) (RunSync.l_args e) (RunSync.l_kwargs e) (Some x) w1 = Done (inr y) w2 ->
  I n (RunSync.stmt4 lf c e) w = Done (inr (chain_ctx x y)) (unpatch_w c w2).
Proof. intros. eapply undeclared_replaced; eassumption. Qed.

Theorem C03_reason_violation_sync : forall lf c n e w x w1 y w2 w3,
  I n (call_func (c_func c) (RunSync.l_args e) (RunSync.l_kwargs e)) w = Done (inr x) w1 ->
  isinstance x "ContractError" = false -> isinstance x "Exception" = true ->
  run_vals ftab n (c_raises c) (RunSync.l_args e) (RunSync.l_kwargs e) (Some x) w1 = Done (inl tt) w2 ->
  run_vals ftab n (reasons_for c x) (RunSync.l_args e) (RunSync.l_kwargs e) (Some x) w2 = Done (inr y) w3 ->
  I n (RunSync.stmt4 lf c e) w = Done (inr (chain_ctx x y)) (unpatch_w c w3).
Proof. intros. eapply reason_violation; eassumption. Qed.

Theorem C03_declared_same_object_sync : forall lf c n e w x w1 w2 w3,
  I n (call_func (c_func c) (RunSync.l_args e) (RunSync.l_kwargs e)) w = Done (inr x) w1 ->
  isinstance x "ContractError" = false -> isinstance x "Exception" = true ->
  run_vals ftab n (c_raises c) (RunSync.l_args e) (RunSync.l_kwargs e) (Some x) w1 = Done (inl tt) w2 ->
  run_vals ftab n (reasons_for c x) (RunSync.l_args e) (RunSync.l_kwargs e) (Some x) w2 = Done (inl tt) w3 ->
  I n (RunSync.stmt4 lf c e) w = Done (inr x) (unpatch_w c w3).
Proof. intros. eapply declared_same_object; eassumption. Qed.

(* the same five for coroutines ... *)
Theorem C03_contract_error_untouched_async : forall lf c n e w x w1,
  I n (call_func (c_func c) (RunAsync.l_args e) (RunAsync.l_kwargs e)) w = Done (inr x) w1 ->
  isinstance x "ContractError" = true ->
  I n (RunAsync.stmt4 lf c e) w = Done (inr x) (unpatch_w c w1).
Proof. intros. eapply async_contract_error_untouched; eassumption. Qed.
Theorem C03_base_exception_untouched_async : forall lf c n e w x w1,
  I n (call_func (c_func c) (RunAsync.l_args e) (RunAsync.l_kwargs e)) w = Done (inr x) w1 ->
  isinstance x "ContractError" = false -> isinstance x "Exception" = false ->
  I n (RunAsync.stmt4 lf c e) w = Done (inr x) (unpatch_w c w1).
Proof. intros. eapply async_base_exception_untouched; eassumption. Qed.
Theorem C03_undeclared_replaced_async : forall lf c n e w x w1 y w2,
  I n (call_func (c_func c) (RunAsync.l_args e) (RunAsync.l_kwargs e)) w = Done (inr x) w1 ->
  isinstance x "ContractError" = false -> isinstance x "Exception" = true ->
  run_vals ftab n (c_raises c) (RunAsync.l_args e) (RunAsync.l_kwargs e) (Some x) w1 = Done (inr y) w2 ->
  I n (RunAsync.stmt4 lf c e) w = Done (inr (chain_ctx x y)) (unpatch_w c w2).
Proof. intros. eapply async_undeclared_replaced; eassumption. Qed.
Theorem C03_reason_violation_async : forall lf c n e w x w1 y w2 w3,
  I n (call_func (c_func c) (RunAsync.l_args e) (RunAsync.l_kwargs e)) w = Done (inr x) w1 ->
  isinstance x "ContractError" = false -> isinstance x "Exception" = true ->
  run_vals ftab n (c_raises c) (RunAsync.l_args e) (RunAsync.l_kwargs e) (Some x) w1 = Done (inl tt) w2 ->
  run_vals ftab n (reasons_for c x) (RunAsync.l_args e) (RunAsync.l_kwargs e) (Some x) w2 = Done (inr y) w3 ->
  I n (RunAsync.stmt4 lf c e) w = Done (inr (chain_ctx x y)) (unpatch_w c w3).
Proof. intros. eapply async_reason_violation; eassumption. Qed.
Theorem C03_declared_same_object_async : forall lf c n e w x w1 w2 w3,
  I n (call_func (c_func c) (RunAsync.l_args e) (RunAsync.l_kwargs e)) w = Done (inr x) w1 ->
  isinstance x "ContractError" = false -> isinstance x "Exception" = true ->
  run_vals ftab n (c_raises c) (RunAsync.l_args e) (RunAsync.l_kwargs e) (Some x) w1 = Done (inl tt) w2 ->
  run_vals ftab n (reasons_for c x) (RunAsync.l_args e) (RunAsync.l_kwargs e) (Some x) w2 = Done (inl tt) w3 ->
  I n (RunAsync.stmt4 lf c e) w = Done (inr x) (unpatch_w c w3).
Proof. intros. eapply async_declared_same_object; eassumption. Qed.

(* ... and for each step of a generator (x escapes next(generator); it is not the StopIteration that ends the iteration) *)
Theorem C03_contract_error_untouched_iter : forall lf c n e w x w1,
  I n (gen_next (RunIter.l_generator e)) w = Done (inr x) w1 -> isinstance x "StopIteration" = false ->
  isinstance x "ContractError" = true ->
  I n (RunIter.loop_stmt1 lf c e) w = Done (inr x) (unpatch_w c w1).
Proof. intros. eapply iter_contract_error_untouched; eassumption. Qed.
Theorem C03_base_exception_untouched_iter : forall lf c n e w x w1,
  I n (gen_next (RunIter.l_generator e)) w = Done (inr x) w1 -> isinstance x "StopIteration" = false ->
  isinstance x "ContractError" = false -> isinstance x "Exception" = false ->
  I n (RunIter.loop_stmt1 lf c e) w = Done (inr x) (unpatch_w c w1).
Proof. intros. eapply iter_base_exception_untouched; eassumption. Qed.
Theorem C03_undeclared_replaced_iter : forall lf c n e w x w1 y w2,
  I n (gen_next (RunIter.l_generator e)) w = Done (inr x) w1 -> isinstance x "StopIteration" = false ->
  isinstance x "ContractError" = false -> isinstance x "Exception" = true ->
  run_vals ftab n (c_raises c) (RunIter.l_args e) (RunIter.l_kwargs e) (Some x) w1 = Done (inr y) w2 ->
  I n (RunIter.loop_stmt1 lf c e) w = Done (inr (chain_ctx x y)) (unpatch_w c w2).
Proof. intros. eapply iter_undeclared_replaced; eassumption. Qed.
Theorem C03_reason_violation_iter : forall lf c n e w x w1 y w2 w3,
  I n (gen_next (RunIter.l_generator e)) w = Done (inr x) w1 -> isinstance x "StopIteration" = false ->
  isinstance x "ContractError" = false -> isinstance x "Exception" = true ->
  run_vals ftab n (c_raises c) (RunIter.l_args e) (RunIter.l_kwargs e) (Some x) w1 = Done (inl tt) w2 ->
  run_vals ftab n (reasons_for c x) (RunIter.l_args e) (RunIter.l_kwargs e) (Some x) w2 = Done (inr y) w3 ->
  I n (RunIter.loop_stmt1 lf c e) w = Done (inr (chain_ctx x y)) (unpatch_w c w3).
Proof. intros. eapply iter_reason_violation; eassumption. Qed.
Theorem C03_declared_same_object_iter : forall lf c n e w x w1 w2 w3,
  I n (gen_next (RunIter.l_generator e)) w = Done (inr x) w1 -> isinstance x "StopIteration" = false ->
  isinstance x "ContractError" = false -> isinstance x "Exception" = true ->
  run_vals ftab n (c_raises c) (RunIter.l_args e) (RunIter.l_kwargs e) (Some x) w1 = Done (inl tt) w2 ->
  run_vals ftab n (reasons_for c x) (RunIter.l_args e) (RunIter.l_kwargs e) (Some x) w2 = Done (inl tt) w3 ->
  I n (RunIter.loop_stmt1 lf c e) w = Done (inr x) (unpatch_w c w3).
Proof. intros. eapply iter_declared_same_object; eassumption. Qed.

(* what one raises contract admits: instances of the declared classes, subclasses included (isinstance); a rejected
   exception is chained (`from exc`) to the original object *)
Theorem C03_raises_admits : forall n v a k x w,
  admits (v_exceptions v) x = true -> I n (RaisesValidate.run v a k (Some x)) w = Done (inl tt) w.
Proof. intros. apply raises_admits. assumption. Qed.
Theorem C03_raises_rejects : forall n v a k x w,
  admits (v_exceptions v) x = false ->
  exists y w', I n (RaisesValidate.run v a k (Some x)) w = Done (inr y) w' /\ e_cause y = Some (e_id x).
Proof. intros. apply raises_rejects. assumption. Qed.
End S.
Print Assumptions C03_contract_error_untouched_sync.
Print Assumptions C03_base_exception_untouched_sync.
Print Assumptions C03_undeclared_replaced_sync.
Print Assumptions C03_reason_violation_sync.
Print Assumptions C03_declared_same_object_sync.
Print Assumptions C03_declared_same_object_async.
Print Assumptions C03_declared_same_object_iter.
Print Assumptions C03_undeclared_replaced_iter.
Print Assumptions C03_raises_admits.
Print Assumptions C03_raises_rejects.

(* non-vacuity: KeyError is admitted by raises(LookupError), ValueError is not *)
Example C03_nonvacuous :
  admits [under_exception "LookupError" []] (mk_exn KeyErrorC []) = true /\
  admits [under_exception "LookupError" []] (mk_exn (under_exception "ValueError" []) []) = false /\
  isinstance (mk_exn KeyErrorC []) "ContractError" = false /\ isinstance (mk_exn KeyErrorC []) "Exception" = true.
Proof. vm_compute. auto. Qed.
