(* Props/C05.v -- property theorems for C05 (class invariants). Statements only; proofs in Thm/C05/Invariants.v; about the
   invariant state machine Sem/InvModel.v (InvariantedClass, source pinned by Gen/ObjPin.v). *)
From Coq Require Import List ZArith Bool String.
Import ListNotations.
Require Import Base Show InvModel InvCode Invariant ObjPin Invariants Refine.
Open Scope string_scope.

Theorem C05_completed_implies_inv : forall cls invs s o s1 r,
  s_enabled s = true -> step cls invs s o = (s1, r) -> completed r = true ->
  match o with OSet _ _ | OCall _ _ _ => all_hold cls invs s1 | _ => True end.
Proof. exact completed_implies_inv. Qed.
Print Assumptions C05_completed_implies_inv.
Theorem C05_not_entered_when_broken : forall cls invs s sets raises ret e,
  check cls invs s = Some e -> step cls invs s (OCall sets raises ret) = (s, e).
Proof. exact not_entered_when_broken. Qed.
Theorem C05_no_rollback : forall cls invs s n v s1 r,
  step cls invs s (OSet n v) = (s1, r) -> lookup n (s_inst s1) = Some v.
Proof. exact assignment_not_rolled_back. Qed.
Theorem C05_static_transparent : forall cls invs s ret, step cls invs s (OStatic ret) = (s, Ok (VInt ret)).
Proof. exact static_transparent. Qed.
Theorem C05_disabled_inert : forall cls invs s o s1 r,
  s_enabled s = false -> step cls invs s o = (s1, r) ->
  match o with OCall _ true _ => r = Exc "ValueError" | OCallB _ _ _ => r = Exc "ValueError" \/ completed r = true | _ => completed r = true end.
Proof. exact disabled_inert. Qed.
Print Assumptions C05_not_entered_when_broken.
Print Assumptions C05_no_rollback.
Print Assumptions C05_disabled_inert.

(* nested calls through self and changes of the state that no __setattr__ sees (in-place changes, writes to __dict__) *)
Theorem C05_completed_implies_inv_nested : forall cls invs s body raises ret s1 r,
  s_enabled s = true -> step cls invs s (OCallB body raises ret) = (s1, r) -> completed r = true -> all_hold cls invs s1.
Proof. exact callb_completed_implies_inv. Qed.
Theorem C05_inner_call_completed_implies_inv : forall cls invs s items s1,
  s_enabled s = true -> inner_call cls invs s items false = (s1, None) -> all_hold cls invs s1.
Proof. exact inner_completed_implies_inv. Qed.
Theorem C05_inner_call_not_entered_when_broken : forall cls invs s items rs e t,
  check cls invs s = Some e -> run_body cls invs s (BInner items rs :: t) = (s, Some e).
Proof. exact inner_not_entered_when_broken. Qed.
Theorem C05_nested_not_entered_when_broken : forall cls invs s body raises ret e,
  check cls invs s = Some e -> step cls invs s (OCallB body raises ret) = (s, e).
Proof. exact callb_not_entered_when_broken. Qed.
Print Assumptions C05_completed_implies_inv_nested.
Print Assumptions C05_inner_call_completed_implies_inv.
Example C05_inner_violation_not_repairable :
  snd (step [] [{| i_form := IExplicit; i_pred := PGe "x" 0 |}] {| s_inst := [("x", VInt 1)]; s_enabled := true |}
            (OCallB [BInner [(true, ("x", VInt (-1)))] false; BRaw "x" (VInt 1)] false 7)) = InvError.
Proof. exact inner_violation_not_repairable. Qed.

(* for every history of operations from every state: after each assignment or method call (plain or with nested calls / unseen stores)
   that was made while contracts were enabled and completed, every invariant is true *)
Theorem C05_every_reachable_state : forall cls invs h s, history_ok cls invs s h.
Proof. exact every_history_ok. Qed.
Print Assumptions C05_every_reachable_state.

(* refuted at full strength ("an operation that leaves an invariant false raises the invariant-violation error"): a method that
   raises an exception of its own is not validated on the way out, so a store that no __setattr__ saw escapes under that exception
   (finding C05-F3; the same history runs against the real class in corpus/C05/unseen-store-then-raise.json) *)
Theorem C05_exceptional_exit_unvalidated_refuted :
  step [] [{| i_form := IExplicit; i_pred := PLe "x" 9 |}] {| s_inst := [("x", VInt 5)]; s_enabled := true |} (OCallB [BRaw "x" (VInt 10)] true 2)
  = ({| s_inst := [("x", VInt 10)]; s_enabled := true |}, Exc "ValueError").
Proof. reflexivity. Qed.

(* the tie to the source: the statements of InvariantedClass regenerated from deal/_runtime/_invariant.py on every run
   (Gen/Invariant.v), run by Sem/InvCode.v, are the state machine the theorems above are about *)
Theorem C05_code_refines_model : forall cls invs s o, step_code code cls invs s o = Some (step cls invs s o).
Proof. exact step_code_is_step. Qed.
Print Assumptions C05_code_refines_model.
Theorem C05_code_history : forall cls invs h s, run_history_code cls invs s h = Some (run_history cls invs s h).
Proof. exact history_code_is_history. Qed.
Theorem C05_code_own_attributes_raw :
  forallb (fun n => match getattribute code (KDeal n) with Some false => true | _ => false end)
          ["_deal_validate"; "_deal_patched_method"; ATTR] = true.
Proof. exact getattribute_deal_attrs. Qed.
Theorem C05_code_stacking_order : forall (A : Type) (v : A) (vs : list A),
  decorate_all (c_invariant code) false None (v :: vs) = Some (Some (v :: vs)).
Proof. exact decorate_order. Qed.
Print Assumptions C05_code_history.
Print Assumptions C05_code_stacking_order.

(* refuted at full strength for the `_` form: an attribute that lives at class level only cannot be read *)
Theorem C05_short_form_class_attribute_refuted :
  eval_inv [("x", VInt 3)] [] {| i_form := IShort; i_pred := PGe "x" 0 |} = VRaise "KeyError" /\
  eval_inv [("x", VInt 3)] [] {| i_form := IExplicit; i_pred := PGe "x" 0 |} = VTrue.
Proof. split; reflexivity. Qed.

Example C05_nonvacuous :
  exists s1, step [("x", VInt 1)] [{| i_form := IExplicit; i_pred := PGe "x" 0 |}] {| s_inst := []; s_enabled := true |} (OSet "x" (VInt (-1))) = (s1, InvError).
Proof. eexists. reflexivity. Qed.
