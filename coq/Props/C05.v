(* Props/C05.v -- property theorems for C05 (class invariants). Statements only; proofs in Thm/C05/Invariants.v; about the
   invariant state machine Sem/InvModel.v (InvariantedClass, source pinned by Gen/ObjPin.v). *)
From Coq Require Import List ZArith Bool String.
Import ListNotations.
Require Import Base Show InvModel InvCode Invariant ObjPin Invariants Refine.
Open Scope string_scope.

Theorem C05_completed_implies_inv : forall cls invs s o s1 r,
  s_enabled s = true -> step cls invs s o = (s1, r) -> completed r = true ->
  match o with OSet _ _ | OCall _ _ _ => all_hold cls invs s1 | _ => True end.
Proof. exact completed_implies_inv. Qed.
Print Assumptions C05_completed_implies_inv.
Theorem C05_not_entered_when_broken : forall cls invs s sets raises ret e,
  check cls invs s = Some e -> step cls invs s (OCall sets raises ret) = (s, e).
Proof. exact not_entered_when_broken. Qed.
Theorem C05_no_rollback : forall cls invs s n v s1 r,
  step cls invs s (OSet n v) = (s1, r) -> lookup n (s_inst s1) = Some v.
Proof. exact assignment_not_rolled_back. Qed.
Theorem C05_static_transparent : forall cls invs s ret, step cls invs s (OStatic ret) = (s, Ok (VInt ret)).
Proof. exact static_transparent. Qed.
Theorem C05_disabled_inert : forall cls invs s o s1 r,
  s_enabled s = false -> step cls invs s o = (s1, r) ->
  match o with OCall _ true _ => r = Exc "ValueError" | _ => completed r = true end.
Proof. exact disabled_inert. Qed.
Print Assumptions C05_not_entered_when_broken.
Print Assumptions C05_no_rollback.
Print Assumptions C05_disabled_inert.

(* the tie to the source: the statements of InvariantedClass regenerated from deal/_runtime/_invariant.py on every run
   (Gen/Invariant.v), run by Sem/InvCode.v, are the state machine the theorems above are about *)
Theorem C05_code_refines_model : forall cls invs s o, step_code code cls invs s o = Some (step cls invs s o).
Proof. exact step_code_is_step. Qed.
Print Assumptions C05_code_refines_model.
Theorem C05_code_history : forall cls invs h s, run_history_code cls invs s h = Some (run_history cls invs s h).
Proof. exact history_code_is_history. Qed.
Theorem C05_code_own_attributes_raw :
  forallb (fun n => match getattribute code (KDeal n) with Some false => true | _ => false end)
          ["_deal_validate"; "_deal_patched_method"; ATTR] = true.
Proof. exact getattribute_deal_attrs. Qed.
Theorem C05_code_stacking_order : forall (A : Type) (v : A) (vs : list A),
  decorate_all (c_invariant code) false None (v :: vs) = Some (Some (v :: vs)).
Proof. exact decorate_order. Qed.
Print Assumptions C05_code_history.
Print Assumptions C05_code_stacking_order.

(* refuted at full strength for the `_` form: an attribute that lives at class level only cannot be read *)
Theorem C05_short_form_class_attribute_refuted :
  eval_inv [("x", VInt 3)] [] {| i_form := IShort; i_pred := PGe "x" 0 |} = VRaise "KeyError" /\
  eval_inv [("x", VInt 3)] [] {| i_form := IExplicit; i_pred := PGe "x" 0 |} = VTrue.
Proof. split; reflexivity. Qed.

Example C05_nonvacuous :
  exists s1, step [("x", VInt 1)] [{| i_form := IExplicit; i_pred := PGe "x" 0 |}] {| s_inst := []; s_enabled := true |} (OSet "x" (VInt (-1))) = (s1, InvError).
Proof. eexists. reflexivity. Qed.
