(* Props/C05.v -- property theorems for C05 (class invariants). Statements only; proofs in Thm/C05/Invariants.v; about the
   invariant state machine Sem/InvModel.v (InvariantedClass, source pinned by Gen/ObjPin.v). *)
From Coq Require Import List ZArith Bool String.
Import ListNotations.
Require Import Base Show InvModel ObjPin Invariants.
Open Scope string_scope.

Theorem C05_completed_implies_inv : forall cls invs s o s1 r,
  s_enabled s = true -> step cls invs s o = (s1, r) -> completed r = true ->
  match o with OSet _ _ | OCall _ _ _ => all_hold cls invs s1 | _ => True end.
Proof. exact completed_implies_inv. Qed.
Print Assumptions C05_completed_implies_inv.
Theorem C05_not_entered_when_broken : forall cls invs s sets raises ret e,
  check cls invs s = Some e -> step cls invs s (OCall sets raises ret) = (s, e).
Proof. exact not_entered_when_broken. Qed.
Theorem C05_no_rollback : forall cls invs s n v s1 r,
  step cls invs s (OSet n v) = (s1, r) -> lookup n (s_inst s1) = Some v.
Proof. exact assignment_not_rolled_back. Qed.
Theorem C05_static_transparent : forall cls invs s ret, step cls invs s (OStatic ret) = (s, Ok (VInt ret)).
Proof. exact static_transparent. Qed.
Theorem C05_disabled_inert : forall cls invs s o s1 r,
  s_enabled s = false -> step cls invs s o = (s1, r) ->
  match o with OCall _ true _ => r = Exc "ValueError" | _ => completed r = true end.
Proof. exact disabled_inert. Qed.
Print Assumptions C05_not_entered_when_broken.
Print Assumptions C05_no_rollback.
Print Assumptions C05_disabled_inert.

(* refuted at full strength for the `_` form: an attribute that lives at class level only cannot be read *)
Theorem C05_short_form_class_attribute_refuted :
  eval_inv [("x", VInt 3)] [] {| i_form := IShort; i_pred := PGe "x" 0 |} = VRaise "KeyError" /\
  eval_inv [("x", VInt 3)] [] {| i_form := IExplicit; i_pred := PGe "x" 0 |} = VTrue.
Proof. split; reflexivity. Qed.

Example C05_nonvacuous :
  exists s1, step [("x", VInt 1)] [{| i_form := IExplicit; i_pred := PGe "x" 0 |}] {| s_inst := []; s_enabled := true |} (OSet "x" (VInt (-1))) = (s1, InvError).
Proof. eexists. reflexivity. Qed.
