(* Props/C19.v -- property theorems for C19 (decorate). Statements only; proofs in Thm/C19. About the mutation algebra regenerated
   from deal/linter/_transformer.py (Gen/Transformer.v) and the planner model Sem/DecorateModel.v (source pinned). What lives in the
   Python grammar (validity of the output, AST equality) is decided by the monitors of the C19 family on the implementation; the
   theorems reduce it to per-line facts: which lines can change, and how. *)
From Coq Require Import List Arith Bool String.
Import ListNotations.
Require Import Transformer DecorateModel Lines Render Plan.
Open Scope string_scope.
Local Open Scope list_scope.

(* applying the mutations in the order of _apply_mutations = per line, on (that line :: already transformed rest) *)
Theorem C19_bottom_up : forall ms ls,
  (forall m, In m ms -> 1 <= line m <= 1 + List.length ls) ->
  apply_mutations ms ls = spec (sort_desc ms) 1 ls.
Proof. exact apply_mutations_spec. Qed.
(* under the planner's conditions (at most one Remove per line; an appended comment goes to a line nothing else touches) the output is
   the original file, line by line: inserted lines, then the original line unless removed, with the appended comments *)
Theorem C19_only_lines_added_or_removed : forall ms ls,
  (forall m, In m ms -> in_range (List.length ls) m) ->
  (forall l, wf_at l ms = true) ->
  apply_mutations ms ls = render (sort_desc ms) 1 ls.
Proof. exact apply_mutations_render. Qed.
(* ... so the original lines that survive are exactly the ones no Remove addresses, in their order *)
Theorem C19_survivors : forall ms l n,
  flat_map orig_of (origins ms l n) = filter (fun k => negb (removed_at ms k)) (seq l n).
Proof. exact origins_survivors. Qed.
(* declarations only grow: a replaced raises / has contract lists everything declared before *)
Theorem C19_declared_exceptions_kept : forall ty f l,
  In (PRemove l) (mutations_excs ty f) ->
  (exists c, In c (f_contracts f) /\ exc_cat c = true /\ c_inherited c = false /\ c_line c <= l <= c_line c + (c_last c - c_line c)) /\
  In (PInsertC (get_insert_line f) CRaises (declared_excs f ++ f_new_excs f) (f_col f)) (mutations_excs ty f).
Proof. exact excs_remove_replaced. Qed.
Theorem C19_declared_markers_kept : forall q ty f acc l,
  In (PRemove l) (collect_markers q ty f acc) -> ~ In (PRemove l) acc ->
  (exists c, In c (f_contracts f) /\ has_cat c = true /\ c_inherited c = false /\ c_line c <= l <= c_line c + (c_last c - c_line c)) /\
  In (PInsertC (get_insert_line f) CHas (map (quoted q) (declared_markers f ++ f_new_markers f)) (f_col f)) (collect_markers q ty f acc).
Proof. exact markers_remove_replaced. Qed.
Theorem C19_new_exceptions_declared : forall ty f,
  f_new_excs f <> [] -> t_raises ty = true ->
  In (PInsertC (get_insert_line f) CRaises (declared_excs f ++ f_new_excs f) (f_col f)) (mutations_excs ty f).
Proof. exact excs_grow. Qed.
Theorem C19_nothing_new_nothing_changed : forall ty f, f_new_excs f = [] -> declared_excs f <> [] -> mutations_excs ty f = [].
Proof. exact excs_nothing_new. Qed.
Theorem C19_insert_below_inherit : forall f ds ln,
  f_decos f = ds ++ [DInherit ln] -> (forall d, In d ds -> f_line f <= deco_line d) -> f_line f <= ln -> get_insert_line f = ln + 1.
Proof. exact insert_below_inherit. Qed.
Theorem C19_import_line_stops : forall h pre rest, import_line h (pre ++ SOther :: rest) = import_line h (pre ++ [SOther]).
Proof. exact import_line_stops. Qed.
Print Assumptions C19_import_line_stops.
Print Assumptions C19_insert_below_inherit.
Print Assumptions C19_bottom_up.
Print Assumptions C19_only_lines_added_or_removed.
Print Assumptions C19_survivors.
Print Assumptions C19_declared_exceptions_kept.
Print Assumptions C19_declared_markers_kept.
Print Assumptions C19_new_exceptions_declared.

(* non-vacuity: a plan that meets the premises of C19_only_lines_added_or_removed *)
Example C19_premises_met :
  let ms := [MInsertContract 2 "@deal.has()"; MInsert 1 "import deal"; MRemove 2; MAppend 3 "  # x"] in
  let ls := ["a"; "@deal.pure"; "@property"; "def f(): pass"] in
  (forallb (fun l => wf_at l ms) (seq 1 5) = true) /\
  apply_mutations ms ls = ["import deal"; "a"; "@deal.has()"; "@property  # x"; "def f(): pass"].
Proof. split; reflexivity. Qed.

Theorem C19_has_disabled_keeps_declared : forall q ty f acc l, t_has ty = false -> In (PRemove l) (collect_markers q ty f acc) -> In (PRemove l) acc.
Proof. exact has_disabled_keeps_declared. Qed.
Theorem C19_removed_contract_disappears : forall c l, c_line c <= l <= c_last c -> In (PRemove l) (remove_contract c).
Proof. exact remove_contract_all_lines. Qed.
Theorem C19_import_after_docstring : forall h e, doc_end h = Some e -> import_line h [] = e + 1.
Proof. exact import_after_docstring. Qed.
(* the planner meets W1 for the mutations of one function: when the decorators of the function occupy disjoint line ranges (a fact of
   the Python layout), no line is removed twice, whatever the linter reports and whichever types are enabled *)
Theorem C19_planner_meets_w1 : forall q ty f l, disjoint_ranges (f_contracts f) -> removes l (collect q ty [] f) <= 1.
Proof. exact planner_meets_w1. Qed.
Example C19_disjoint_ranges_met : disjoint_ranges (f_contracts pure_fn) /\ disjoint_ranges (f_contracts multi_fn).
Proof.
  split; intro l; unfold hits, pure_fn, multi_fn; cbn [f_contracts filter andb];
    match goal with |- context [in_rangeb ?c ?x] => destruct (in_rangeb c x) end; cbn; auto.
Qed.
Print Assumptions C19_planner_meets_w1.
Print Assumptions C19_has_disabled_keeps_declared.
Example C19_multiline_decorator :
  transform "'" only_raises no_head [SImport 1 ["deal"]] [multi_fn] ["import deal"; "@deal.raises("; "    KeyError,"; ")"; "def f():"; "    raise ValueError"]
  = Some ["import deal"; "@deal.raises(KeyError, ValueError)"; "def f():"; "    raise ValueError"].
Proof. exact multiline_decorator_removed. Qed.

Example C19_pure_split_once :
  plan "'" all_types no_head [SImport 1 ["deal"]] [pure_fn]
  = Some [PRemove 2; PInsertC 2 CRaises ["ValueError"] 0; PInsertC 2 CHas ["'stdout'"] 0] /\
  transform "'" all_types no_head [SImport 1 ["deal"]] [pure_fn] pure_src
  = Some ["import deal"; "@deal.has('stdout')"; "@deal.raises(ValueError)"; "def f():"; "    print(1)"; "    raise ValueError"].
Proof. exact pure_split_once. Qed.
(* why (W1) matters: two Removes addressed to one line delete the line that followed it *)
Example C19_double_remove_eats_next :
  apply_mutations [MRemove 2; MRemove 2; MInsertContract 2 "@deal.raises(ValueError)"] pure_src
  = ["import deal"; "@deal.raises(ValueError)"; "    print(1)"; "    raise ValueError"]
  /\ wf_at 2 [MRemove 2; MRemove 2] = false.
Proof. exact double_remove_eats_def. Qed.
