(* Props/C16.v -- property theorems for C16 (the linter is total, deterministic and reports well-formed locations). Statements
   only; proofs in Thm/C16/Driver.v; about Sem/LintDriver.v (source pinned by Gen/DriverPin.v, which also carries the regenerated
   sentinel constants) and the code tables regenerated in Gen/Rules.v from deal/linter/_rules.py and docs/basic/linter.md.
   Totality itself (no rule raises on any valid module) is decided by the C16 family on the implementation: it is a statement
   about CPython's ast, astroid and every extractor at once, which the model does not contain. *)
From Coq Require Import List Arith Bool String.
Import ListNotations.
Require Import Base Model HasPatcher Rules DriverPin LintDriver Driver.
Open Scope string_scope.
Local Open Scope list_scope.

Theorem C16_no_duplicates : forall noqa rep l, distinct (drive noqa rep l).
Proof. exact drive_distinct. Qed.
Theorem C16_emitted_are_rule_findings : forall noqa rep l e,
  In e (drive noqa rep l) -> In e l /\ suppressed (noqa (e_row e)) e = false /\ existsb (key_eqb e) rep = false.
Proof. exact drive_in. Qed.
Theorem C16_nothing_else_lost : forall noqa rep l e,
  In e l -> suppressed (noqa (e_row e)) e = false -> existsb (key_eqb e) rep = false ->
  exists e', In e' (drive noqa rep l) /\ key_eqb e e' = true.
Proof. exact drive_complete. Qed.
Theorem C16_deterministic : forall noqa noqa' fe me, (forall r, noqa r = noqa' r) -> get_errors noqa fe me = get_errors noqa' fe me.
Proof. exact get_errors_deterministic. Qed.
Theorem C16_positions_inside : forall t nl nc n,
  1 <= nl <= n -> (t_line t = DEFAULT_LINE \/ 1 <= t_line t <= n) -> 1 <= t_line (ensure_node_info t nl nc) <= n.
Proof. exact ensure_node_info_inside. Qed.
Theorem C16_codes_documented : forallb (fun c => existsb (Nat.eqb c) DOC_CODES) emitted_codes = true.
Proof. exact codes_documented. Qed.
Theorem C16_cli_exit_counts_lines : forall render errors, snd (cli_json render errors) = List.length (fst (cli_json render errors)).
Proof. exact cli_exit_counts_lines. Qed.
Print Assumptions C16_no_duplicates.
Print Assumptions C16_nothing_else_lost.
Print Assumptions C16_positions_inside.
Print Assumptions C16_codes_documented.

(* non-vacuity: two findings at one position with different values are both kept; an exact duplicate and a noqa-suppressed one are dropped *)
Example C16_example :
  let e1 := {| e_row := 3; e_col := 4; e_code := 21; e_text := "raises contract error"; e_value := Some "KeyError" |} in
  let e2 := {| e_row := 3; e_col := 4; e_code := 21; e_text := "raises contract error"; e_value := Some "ValueError" |} in
  let e3 := {| e_row := 5; e_col := 0; e_code := 46; e_text := "missed marker"; e_value := Some "stdout" |} in
  drive (fun r => if Nat.eqb r 5 then ["046"] else []) [] [e1; e2; e1; e3] = [e1; e2].
Proof. reflexivity. Qed.
