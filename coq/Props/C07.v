(* Props/C07.v -- property theorems for C07 (global switch). Statements only; proofs are in Thm/C07. *)
From Coq Require Import List ZArith Bool String.
Import ListNotations.
Require Import Base Prog Sig Interp InterpFacts Model Validators HasPatcher Contracts State ScnSwitch Switch Loops Gate.
Require InvModel InvCode Invariant Refine Scenario GenSwitch.

(* Every history of switch operations, run on the code generated from deal/_state.py, behaves as the
   two-boolean machine [hist_spec]; any function table, any fuel, any `warn` arguments, either __debug__. *)
Theorem C07_history_refines :
  forall py_debug ftab n (h : list (bool * op)) s g,
    interp ftab n (hist_prog py_debug h) {| wst := s; gens := g |} =
    Done (inl (fst (hist_spec py_debug s (map snd h)))) {| wst := snd (hist_spec py_debug s (map snd h)); gens := g |}.
Proof. exact hist_refines. Qed.
Print Assumptions C07_history_refines.

(* contracts are enforced iff the last effective switch left them enabled: while no permanent disable
   occurred, no call raises and the last one decides *)
Theorem C07_enforced_iff_last :
  forall py_debug h o s,
    removed s = false -> forallb (fun x => negb (is_perm x)) (h ++ [o]) = true ->
    let (rs, s') := hist_spec py_debug s (h ++ [o]) in
    debug s' = next_debug py_debug o /\ removed s' = false /\ forallb ok rs = true.
Proof. exact last_wins_aux. Qed.
Print Assumptions C07_enforced_iff_last.

(* default: enabled unless Python runs optimised *)
Theorem C07_default :
  forall py_debug s, exists s',
    run_simple (run_unit (state_init py_debug) senv0) s = Some (inl tt, s') /\
    debug s' = py_debug /\ removed s' = false /\ rest s' = rest s.
Proof. exact init_default. Qed.
Print Assumptions C07_default.

(* a permanent disable succeeds once ... *)
Theorem C07_permanent_step :
  forall py_debug s, removed s = false ->
    let (r, s') := step_spec py_debug s ODisablePerm in r = inl tt /\ debug s' = false /\ removed s' = true.
Proof. exact perm_step. Qed.
Print Assumptions C07_permanent_step.

(* ... and is final: afterwards enable / reset / a second permanent disable raise the RuntimeError for ever
   (plain disable is a no-op), and contracts stay disabled and removed, whatever the history *)
Theorem C07_permanent_final :
  forall py_debug h s,
    removed s = true -> debug s = false ->
    let (rs, s') := hist_spec py_debug s h in
    debug s' = false /\ removed s' = true /\
    map ok rs = map (fun o => match o with ODisable => true | _ => false end) h /\
    (forall r, In r rs -> ok r = false -> r = inr PERMAMENT_ERROR).
Proof. exact permanent_aux. Qed.
Print Assumptions C07_permanent_final.

(* switching touches nothing but the two booleans *)
Theorem C07_frame : forall py_debug h s, rest (snd (hist_spec py_debug s h)) = rest s.
Proof. exact hist_rest. Qed.
Print Assumptions C07_frame.

(* while disabled, a decorated plain function or coroutine is exactly the original: the generated wrapper evaluates no
   validator and patches nothing (its whole execution is the original call: same outcome object, same final world) *)
Theorem C07_disabled_inert_sync : forall ftab lf c n a k w r w1,
  debug (wst w) = false ->
  interp ftab n (call_func (c_func c) a k) w = Done r w1 -> interp ftab n (RunSync.run lf c a k) w = Done r w1.
Proof. exact disabled_sync. Qed.
Theorem C07_disabled_inert_async : forall ftab lf c n a k w r w1,
  debug (wst w) = false ->
  interp ftab n (call_func (c_func c) a k) w = Done r w1 -> interp ftab n (RunAsync.run lf c a k) w = Done r w1.
Proof. exact disabled_async. Qed.
Print Assumptions C07_disabled_inert_sync.

(* class invariants, on the statements regenerated from deal/_runtime/_invariant.py (Gen/Invariant.v, semantics Sem/InvCode.v):
   while disabled _deal_validate evaluates no invariant, for every class, stack of invariants and instance state; after a permanent
   disable deal.inv returns the class it was given, however many invariants are stacked *)
Theorem C07_disabled_invariants_inert : forall cls invs s,
  InvModel.s_enabled s = false -> InvCode.validate Invariant.code cls invs s = (s, None).
Proof. exact Refine.validate_inert. Qed.
Theorem C07_removed_inv_returns_class : forall (A : Type) (vs : list A) invs,
  InvCode.decorate_all (InvCode.c_invariant Invariant.code) true invs vs = Some invs.
Proof. exact Refine.decorate_removed. Qed.
Print Assumptions C07_disabled_invariants_inert.
Print Assumptions C07_removed_inv_returns_class.

(* REFUTED at full strength for a generator that is already running (finding C07-F1), on the wrapper regenerated from
   Contracts._run_iter: gen = g(); next(gen); deal.disable(); next(gen) -- the second step evaluates the post validator, raises its
   violation and leaves the switch on (the observation text: events, outcome and a snapshot `S <debug><removed>...` per action) *)
Theorem C07_running_generator_ignores_disable_refuted :
  Scenario.show_scenario GenSwitch.across_disable =
  "R g|S 10111|B g {}|V 1 {r:i1}|Y i1|S 10111|R N|S 00111|V 1 {r:i500}|X PostContractError tag=- msg=<> params={r:i500} origin=g cause=- ctx=-|S 10111"%string.
Proof. exact GenSwitch.running_generator_ignores_disable. Qed.
Print Assumptions C07_running_generator_ignores_disable_refuted.

(* non-vacuity: a concrete history meets the premises of C07_permanent_final and of C07_enforced_iff_last *)
Example C07_nonvacuous :
  let s := snd (hist_spec true st0 [ODisable; OEnable; ODisablePerm]) in
  removed s = true /\ debug s = false /\
  forallb (fun x => negb (is_perm x)) ([OReset; ODisable] ++ [OEnable]) = true.
Proof. vm_compute. auto. Qed.
