(* Props/C01.v -- property theorems for C01 (preconditions gate execution). Statements only; proofs in Thm/C01.
   They are about RunSync / RunAsync / RunIter as regenerated from deal/_runtime/_contracts.py on every run. *)
From Coq Require Import List ZArith Bool String.
Import ListNotations.
Require Import Base Prog Sig Interp InterpFacts Model Validators HasPatcher Contracts Scenario Loops Gate.

(* [run_vals] is the reference: validators in application order, stopping at the first that does not accept.
   With contracts enabled, for every registry c, arguments, world, function table and fuel:
   - if some precondition does not accept, the call ends with that validator's error, the switch is restored, and
     nothing after the pre block ran (the result is fully determined here: no body call is reached);
   - if all accept, execution continues with the statements after the pre block (tail3: patch, body call, ...)
     with the caller's args / kwargs unchanged. *)
Theorem C01_reject_sync : forall ftab lf c n a k w x w1,
  debug (wst w) = true -> run_vals ftab n (c_pres c) a k None (dbg false w) = Done (inr x) w1 ->
  interp ftab n (RunSync.run lf c a k) w = Done (inr x) (dbg true w1).
Proof. exact gate_sync_reject. Qed.
Print Assumptions C01_reject_sync.
Theorem C01_accept_sync : forall ftab lf c n a k w w1,
  debug (wst w) = true -> run_vals ftab n (c_pres c) a k None (dbg false w) = Done (inl tt) w1 ->
  exists e1, RunSync.l_args e1 = a /\ RunSync.l_kwargs e1 = k /\
    interp ftab n (RunSync.run lf c a k) w = interp ftab n (run_body (RunSync.tail3 lf c) e1 VNone) (dbg true w1).
Proof. exact gate_sync_accept. Qed.
Print Assumptions C01_accept_sync.

Theorem C01_reject_async : forall ftab lf c n a k w x w1,
  debug (wst w) = true -> run_vals ftab n (c_pres c) a k None (dbg false w) = Done (inr x) w1 ->
  interp ftab n (RunAsync.run lf c a k) w = Done (inr x) (dbg true w1).
Proof. exact gate_async_reject. Qed.
Print Assumptions C01_reject_async.
Theorem C01_accept_async : forall ftab lf c n a k w w1,
  debug (wst w) = true -> run_vals ftab n (c_pres c) a k None (dbg false w) = Done (inl tt) w1 ->
  exists e1, RunAsync.l_args e1 = a /\ RunAsync.l_kwargs e1 = k /\
    interp ftab n (RunAsync.run lf c a k) w = interp ftab n (run_body (RunAsync.tail3 lf c) e1 VNone) (dbg true w1).
Proof. exact gate_async_accept. Qed.
Print Assumptions C01_accept_async.

(* generators: the statement is about the first next() of the wrapper *)
Theorem C01_reject_iter : forall ftab lf c n a k w x w1,
  debug (wst w) = true -> run_vals ftab n (c_pres c) a k None (dbg false w) = Done (inr x) w1 ->
  interp ftab n (RunIter.run lf c a k) w = Done (inr x) (dbg true w1).
Proof. exact gate_iter_reject. Qed.
Print Assumptions C01_reject_iter.
Theorem C01_accept_iter : forall ftab lf c n a k w w1,
  debug (wst w) = true -> run_vals ftab n (c_pres c) a k None (dbg false w) = Done (inl tt) w1 ->
  exists e1, RunIter.l_args e1 = a /\ RunIter.l_kwargs e1 = k /\
    interp ftab n (RunIter.run lf c a k) w = interp ftab n (run_body (RunIter.tail3 lf c) e1 VNone) (dbg true w1).
Proof. exact gate_iter_accept. Qed.
Print Assumptions C01_accept_iter.

(* non-vacuity: a concrete two-precondition registry where the first accepts and the second rejects a = -3 *)
Definition ex_sig : sig := [{| p_name := "a"; p_kind := PosOrKw; p_default := None |}].
Definition ex_fun : sfun :=
  {| sf_name := "f"; sf_kind := KSync; sf_sig := ex_sig;
     sf_stack := [CPre {| sv_id := 1; sv_sig := ex_sig; sv_expr := EBin OGt (EVar "a") (EConst (VInt (-5))); sv_msg := VNone; sv_exc := None |};
                  CPre {| sv_id := 2; sv_sig := ex_sig; sv_expr := EBin OGt (EVar "a") (EConst (VInt 0)); sv_msg := VNone; sv_exc := None |}];
     sf_body := [BReturn (EVar "a")] |}.
Example C01_nonvacuous :
  (exists x w1, run_vals (ftab_of [ex_fun]) 5 (c_pres (build_contracts ex_fun)) [VInt (-3)] [] None (dbg false w_init) = Done (inr x) w1
                /\ c_name (e_cls x) = "PreContractError"%string) /\
  (exists w1, run_vals (ftab_of [ex_fun]) 5 (c_pres (build_contracts ex_fun)) [VInt 3] [] None (dbg false w_init) = Done (inl tt) w1).
Proof. split; [eexists; eexists; split; vm_compute; reflexivity | eexists; vm_compute; reflexivity]. Qed.
