(* Props/C09.v -- property theorems for C09 (composition). Statements only; proofs in Thm/C09/Compose.v. They are about the
   object-graph model Sem/ObjModel.v of Contracts.attach / attach_has / _ensure_wrapped / update_wrapper / chain / foreign
   decorators, whose source is pinned by Gen/ObjPin.v and which the composition correspondence family ties to the code. *)
From Coq Require Import List ZArith Bool String.
Import ListNotations.
Require Import Base Prog Sig Interp Model Scenario ObjModel ScnObj ObjPin Compose.
Require AttachCode Attach AttachRefine.

(* any non-empty sequence of deal decorators (single or grouped: see below) applied to a function object that is not a deal
   wrapper builds exactly one registry, whose original function is that object and which holds exactly the applied validators,
   per application order, and the last has() *)
Theorem C09_union : forall s l h o,
  not_wrapper h o -> is_deal_step s = true -> forallb is_deal_step l = true ->
  let w := List.length (h_objs h) in let r := List.length (h_regs h) in
  exists h', apply_steps h o (s :: l) = (h', w) /\ wrapper_of h' w r /\
             r_func (get_reg h' r) = o /\ r_vals (get_reg h' r) = vals_of (s :: l) /\
             r_patcher (get_reg h' r) = last_has (s :: l) None /\
             h_objs h' = (h_objs h ++ [{| o_kind := ODeal r; o_attr := Some r; o_wrapped := Some o; o_fkind := o_fkind (get_obj h o) |}])%list.
Proof. exact union_fresh. Qed.
Print Assumptions C09_union.
(* further deal decorators on the result extend the same registry and return the same wrapper *)
Theorem C09_extend : forall l h w r,
  forallb is_deal_step l = true -> wrapper_of h w r ->
  exists h', apply_steps h w l = (h', w) /\ wrapper_of h' w r /\
             r_vals (get_reg h' r) = (r_vals (get_reg h r) ++ vals_of l)%list /\
             r_func (get_reg h' r) = r_func (get_reg h r) /\
             r_patcher (get_reg h' r) = last_has l (r_patcher (get_reg h r)) /\ h_objs h' = h_objs h.
Proof. exact steps_on_wrapper. Qed.
Print Assumptions C09_extend.
(* grouping with chain and splitting a stack anywhere change nothing: only the flattened sequence of steps matters *)
Theorem C09_chain_is_stacking : forall cs l, steps_of cs (BChain l) = List.concat (map (fun c => steps_of cs (BUse c)) l).
Proof. exact chain_is_stacking. Qed.
Theorem C09_split_anywhere : forall h o l1 l2,
  apply_steps h o (l1 ++ l2) = apply_steps (fst (apply_steps h o l1)) (snd (apply_steps h o l1)) l2.
Proof. exact apply_steps_app. Qed.
(* a functools.wraps-style foreign decorator on top of a deal wrapper is a new object that is NOT the wrapper of the registry it
   inherits: by C09_union the next deal decorator opens a new registry whose original function is the foreign layer, which
   therefore stays in the call chain *)
Theorem C09_foreign_kept : forall tag h w r,
  wrapper_of h w r ->
  let fo := List.length (h_objs h) in
  exists h', foreign_wraps tag h w = (h', fo) /\ not_wrapper h' fo /\ o_kind (get_obj h' fo) = OForeign tag w.
Proof. exact foreign_wraps_kept. Qed.
Print Assumptions C09_foreign_kept.

Example C09_nonvacuous : not_wrapper (fst (new_obj heap0 obj0)) 0 /\ is_deal_step (SVal KPre 1) = true.
Proof. split; [exact I|reflexivity]. Qed.

(* the tie to the source for the decoration step itself: the statements of Contracts.attach / Contracts.attach_has regenerated from
   deal/_runtime/_contracts.py on every run (Gen/Attach.v), run by Sem/AttachCode.v, are ObjModel.attach / attach_has -- the functions
   every theorem above is about (apply_step) -- for every heap, kind, validator / patcher and function object; once contracts are
   permanently removed both hand back the function and change nothing (C07). _ensure_wrapped stays a pinned hand-written model. *)
Theorem C09_code_attach_refines_model : forall k v h func,
  AttachCode.exec_attach (AttachCode.a_attach Attach.code) false k v h func None = Some (attach k v h func).
Proof. exact AttachRefine.exec_attach_is_attach. Qed.
Theorem C09_code_attach_has_refines_model : forall k p h func,
  AttachCode.exec_attach (AttachCode.a_attach_has Attach.code) false k p h func None = Some (attach_has p h func).
Proof. exact AttachRefine.exec_attach_has_is_attach_has. Qed.
Theorem C09_code_attach_removed_identity : forall k v h func,
  AttachCode.exec_attach (AttachCode.a_attach Attach.code) true k v h func None = Some (h, func) /\
  AttachCode.exec_attach (AttachCode.a_attach_has Attach.code) true k v h func None = Some (h, func).
Proof. exact AttachRefine.exec_attach_removed. Qed.
(* REFUTED at full strength ("a contract object applied to several functions behaves on each of them as a fresh contract"): finding
   C09-F1, for every heap -- the validator object names the function it was attached to LAST (validator.function is one slot), so on the
   first function a `_`-form validator binds with the wrong signature and a violation error names the wrong origin (C12-F1) *)
Theorem C09_shared_validator_function_overwritten_refuted : forall k v h f g,
  nlookup v (h_vfun (fst (attach k v (fst (attach k v h f)) g)))
  = Some (r_func (get_reg (fst (ensure_wrapped (fst (attach k v h f)) g)) (snd (ensure_wrapped (fst (attach k v h f)) g)))).
Proof. exact AttachRefine.second_attach_forgets_the_first. Qed.
Print Assumptions C09_shared_validator_function_overwritten_refuted.
Print Assumptions C09_code_attach_refines_model.
Print Assumptions C09_code_attach_has_refines_model.
