(* Props/C14.v -- property theorems for C14 (introspection). Statements only; proofs in Thm/C14/Introspect.v; about the
   object-graph model Sem/ObjModel.v (source of get_contracts / unwrap / attach pinned by Gen/ObjPin.v). *)
From Coq Require Import List ZArith Bool String.
Import ListNotations.
Require Import Base Prog Sig Interp Model Scenario ObjModel ScnObj ObjPin Compose Introspect.
Require ExtractCode Extractor ExtractRefine.

(* for a plain function decorated by any non-empty sequence of deal decorators (stacked or chained: C09_chain_is_stacking):
   get_contracts reports exactly one record per applied validator -- kinds in the order pre, post, ensure, raises, reason,
   example, each kind in application order -- plus the patcher in force; unwrap returns the original function *)
Theorem C14_exact : forall s l h o n,
  plain_function h o -> is_deal_step s = true -> forallb is_deal_step l = true ->
  let w := List.length (h_objs h) in
  exists h', apply_steps h o (s :: l) = (h', w) /\
             get_contracts (S (S n)) h' w [] =
             (order_records (vals_of (s :: l)) ++ match last_has (s :: l) None with Some p => [RHas p] | None => [] end)%list /\
             unwrap h' w = o.
Proof. exact introspection_exact. Qed.
Print Assumptions C14_exact.
(* a registry met again along the __wrapped__ chain is reported once *)
Theorem C14_no_duplicates : forall n h o r seen,
  o_attr (get_obj h o) = Some r -> existsb (Nat.eqb r) seen = true ->
  get_contracts (S n) h o seen = match o_wrapped (get_obj h o) with Some w => get_contracts n h w seen | None => [] end.
Proof. exact seen_registry_skipped. Qed.
Print Assumptions C14_no_duplicates.
(* the records are the very validator objects of the registry the wrapper runs (Sem/ScnObj.contracts_of_reg reads the same
   r_vals), so validating through a record and calling the function consult the same validator *)
Theorem C14_records_are_registry : forall vals, 
  forall k v, In (RVal k v) (order_records vals) <-> In (k, v) vals.
Proof.
  intros vals k v. unfold order_records. rewrite !in_app_iff, !in_map_iff. split.
  - intros H. repeat destruct H as [H|H]; destruct H as ((k0 & v0) & E & Hin); apply filter_In in Hin; destruct Hin as [Hin Hk];
      inversion E; subst; destruct k0; try discriminate; exact Hin.
  - intro Hin. destruct k; [left|right; left|right; right; left|right; right; right; right; right|right; right; right; left|right; right; right; right; left];
      match goal with |- exists x, _ = RVal ?K _ /\ _ => exists (K, v) end; (split; [reflexivity|apply filter_In; split; [exact Hin|reflexivity]]).
Qed.
Print Assumptions C14_records_are_registry.

(* through inheritance (and any other way a registry gets filled): for a wrapper over a plain function the records are exactly the
   registry the wrapper consults -- for an inheriting method that registry is the merged one of Props/C11.v (Sem/InheritHeap.v) *)
Theorem C14_reports_registry : forall n h p t f,
  o_attr (get_obj h p) = Some t -> o_wrapped (get_obj h p) = Some f ->
  o_attr (get_obj h f) = None -> o_wrapped (get_obj h f) = None ->
  get_contracts (S (S n)) h p [] =
  (order_records (r_vals (get_reg h t)) ++ match r_patcher (get_reg h t) with Some q => [RHas q] | None => [] end)%list.
Proof. exact introspection_reports_registry. Qed.
Print Assumptions C14_reports_registry.

(* the tie to the source: the statements of introspection.get_contracts / unwrap regenerated from deal/introspection/_extractor.py on
   every run (Gen/Extractor.v), run by Sem/ExtractCode.v, are the functions the theorems above are about -- for every heap, function
   object, seen-set and fuel; so C14_exact holds of the regenerated code *)
Theorem C14_code_refines_model : forall fuel h func seen,
  ExtractCode.exec_get_contracts fuel (ExtractCode.x_loop Extractor.code) h func seen = get_contracts fuel h func seen.
Proof. exact ExtractRefine.exec_get_contracts_is_get_contracts. Qed.
Theorem C14_code_unwrap : forall h func,
  ExtractCode.exec_unwrap (ExtractCode.x_unwrap Extractor.code) h func None = Some (unwrap h func).
Proof. exact ExtractRefine.exec_unwrap_is_unwrap. Qed.
Theorem C14_code_exact : forall s l h o n,
  plain_function h o -> is_deal_step s = true -> forallb is_deal_step l = true ->
  exists h', apply_steps h o (s :: l) = (h', List.length (h_objs h)) /\
             ExtractCode.exec_get_contracts (S (S n)) (ExtractCode.x_loop Extractor.code) h' (List.length (h_objs h)) [] =
             (order_records (vals_of (s :: l)) ++ match last_has (s :: l) None with Some p => [RHas p] | None => [] end)%list /\
             ExtractCode.exec_unwrap (ExtractCode.x_unwrap Extractor.code) h' (List.length (h_objs h)) None = Some o.
Proof.
  intros s l h o n Hp Hs Hl. destruct (introspection_exact s l h o n Hp Hs Hl) as (h' & E & G & U).
  exists h'. split; [exact E|]. split.
  - rewrite ExtractRefine.exec_get_contracts_is_get_contracts. exact G.
  - rewrite ExtractRefine.exec_unwrap_is_unwrap. cbv zeta in U. rewrite U. reflexivity.
Qed.
(* the fuel of the model is not a truncation: on a __wrapped__ chain that ends after n links, S n steps report everything *)
Theorem C14_fuel_adequate : forall h f n, ExtractRefine.chain_len h f n ->
  forall k seen, get_contracts (S n + k) h f seen = get_contracts (S n) h f seen.
Proof. exact ExtractRefine.fuel_adequate. Qed.
Print Assumptions C14_fuel_adequate.
Print Assumptions C14_code_refines_model.
Print Assumptions C14_code_exact.

Example C14_nonvacuous : plain_function (fst (new_obj heap0 obj0)) 0.
Proof. cbn. repeat split; auto. Qed.
