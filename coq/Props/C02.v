(* Props/C02.v -- property theorems for C02 (post / ensure decide delivery). Statements only; proofs in Thm/C02.
   About the post-validation block of RunSync / RunAsync / RunIter regenerated from deal/_runtime/_contracts.py.
   [run_posts]: every post on (v) in order, then every ensure on (args, kwargs + result=v), stopping at the first failure. *)
From Coq Require Import List ZArith Bool String.
Import ListNotations.
Require Import Base Prog Sig Interp InterpFacts Model Validators HasPatcher Contracts Scenario Loops Post.

(* sync: from the statement after the body call (tail5), with result v = l_result e *)
Theorem C02_deliver_sync : forall ftab lf c n e w w1,
  run_posts ftab n c (RunSync.l_args e) (RunSync.l_kwargs e) (RunSync.l_result e) (dbg false w) = Done (inl tt) w1 ->
  interp ftab n (run_body (RunSync.tail5 lf c) e VNone) w = Done (inl (RunSync.l_result e)) (dbg true w1).
Proof. exact post_sync_accept. Qed.
Print Assumptions C02_deliver_sync.
Theorem C02_reject_sync : forall ftab lf c n e w x w1,
  run_posts ftab n c (RunSync.l_args e) (RunSync.l_kwargs e) (RunSync.l_result e) (dbg false w) = Done (inr x) w1 ->
  interp ftab n (run_body (RunSync.tail5 lf c) e VNone) w = Done (inr x) (dbg true w1).
Proof. exact post_sync_reject. Qed.
Print Assumptions C02_reject_sync.

Theorem C02_deliver_async : forall ftab lf c n e w w1,
  run_posts ftab n c (RunAsync.l_args e) (RunAsync.l_kwargs e) (RunAsync.l_result e) (dbg false w) = Done (inl tt) w1 ->
  interp ftab n (run_body (RunAsync.tail5 lf c) e VNone) w = Done (inl (RunAsync.l_result e)) (dbg true w1).
Proof. exact post_async_accept. Qed.
Print Assumptions C02_deliver_async.
Theorem C02_reject_async : forall ftab lf c n e w x w1,
  run_posts ftab n c (RunAsync.l_args e) (RunAsync.l_kwargs e) (RunAsync.l_result e) (dbg false w) = Done (inr x) w1 ->
  interp ftab n (run_body (RunAsync.tail5 lf c) e VNone) w = Done (inr x) (dbg true w1).
Proof. exact post_async_reject. Qed.
Print Assumptions C02_reject_async.

(* generators: each iteration of the wrapper loop, after `result = next(generator)`: the value is yielded to the consumer
   (the run suspends with exactly that value) iff post/ensure accept it; a rejection ends the iteration with the error,
   which ends the wrapper loop (StmtFacts.while_iter_raise): the inner generator is never resumed again. *)
Theorem C02_yield_iter : forall ftab lf c n e w w1,
  run_posts ftab n c (RunIter.l_args e) (RunIter.l_kwargs e) (RunIter.l_result e) (dbg false w) = Done (inl tt) w1 ->
  exists K, interp ftab n (RunIter.loop_tail2 lf c e) w = Susp (RunIter.l_result e) K (dbg true w1).
Proof. exact post_iter_accept. Qed.
Print Assumptions C02_yield_iter.
Theorem C02_reject_iter : forall ftab lf c n e w x w1,
  run_posts ftab n c (RunIter.l_args e) (RunIter.l_kwargs e) (RunIter.l_result e) (dbg false w) = Done (inr x) w1 ->
  interp ftab n (RunIter.loop_tail2 lf c e) w = Done (inr x) (dbg true w1).
Proof. exact post_iter_reject. Qed.
Print Assumptions C02_reject_iter.
Theorem C02_iter_no_resume : forall ftab (env R : Type) n m (body : stmt env R) e w x w1,
  interp ftab n (body e) w = Done (inr x) w1 -> interp ftab n (s_while_true (S m) body e) w = Done (inr x) w1.
Proof. intros. eapply StmtFacts.while_iter_raise. eassumption. Qed.
Print Assumptions C02_iter_no_resume.

(* non-vacuity: a registry with one post (r > 0) and one ensure (result >= a): accepted for (a=1, v=5), rejected for v=-1 *)
Definition c02_sig : sig := [{| p_name := "a"; p_kind := PosOrKw; p_default := None |}].
Definition c02_fun : sfun :=
  {| sf_name := "f"; sf_kind := KSync; sf_sig := c02_sig;
     sf_stack := [CPost {| sv_id := 1; sv_sig := [{| p_name := "r"; p_kind := PosOrKw; p_default := None |}];
                           sv_expr := EBin OGt (EVar "r") (EConst (VInt 0)); sv_msg := VNone; sv_exc := None |};
                  CEnsure {| sv_id := 2; sv_sig := (c02_sig ++ [{| p_name := "result"; p_kind := KwOnly; p_default := None |}])%list;
                             sv_expr := EBin OGe (EVar "result") (EVar "a"); sv_msg := VNone; sv_exc := None |}];
     sf_body := [BReturn (EVar "a")] |}.
Example C02_nonvacuous :
  (exists w1, run_posts (ftab_of [c02_fun]) 5 (build_contracts c02_fun) [VInt 1] [] (VInt 5) (dbg false w_init) = Done (inl tt) w1) /\
  (exists x w1, run_posts (ftab_of [c02_fun]) 5 (build_contracts c02_fun) [VInt 1] [] (VInt (-1)) (dbg false w_init) = Done (inr x) w1
                /\ c_name (e_cls x) = "PostContractError"%string).
Proof. split; [eexists; vm_compute; reflexivity | eexists; eexists; split; vm_compute; reflexivity]. Qed.
