(* Props/C20.v -- property theorems for C20 (module-load contracts). Statements only; proofs in Thm/C20/Imports.v; about the
   import state machine Sem/ImportModel.v (deal/_imports.py, source pinned by Gen/ObjPin.v). *)
From Coq Require Import List Bool String.
Import ListNotations.
Require Import Base Show HasPatcher ImportModel ObjPin Imports.
Open Scope string_scope.

Theorem C20_activate_idempotent : forall s,
  (active s = true \/ existsb (finder_eqb PathFinderF) (meta_path s) = true) ->
  let s1 := fst (activate s) in activate s1 = (s1, false).
Proof. exact activate_idempotent. Qed.
Theorem C20_deactivate_inverse : forall s,
  enabled s = true -> active s = false -> existsb (finder_eqb PathFinderF) (meta_path s) = true ->
  let s1 := fst (activate s) in snd (activate s) = true /\ active s1 = true /\
  snd (deactivate s1) = true /\ meta_path (fst (deactivate s1)) = meta_path s.
Proof. exact deactivate_inverse. Qed.
Theorem C20_disabled_inert : forall s, enabled s = false -> activate s = (s, false).
Proof. exact activate_disabled. Qed.
Theorem C20_requires_activation : forall s name src n cs,
  enabled s = true -> active s = false -> m_calls_module_load src = Some (S n) -> m_arg_error src = None ->
  exec_body s src cs = (if existsb restricts_exc cs then IExc "RaisesContractError" else IExc "RuntimeError") /\
  import_module s name src = (s, IExc "RuntimeError").
Proof. exact requires_activation. Qed.
Theorem C20_no_declaration_plain : forall s name src,
  active s = true -> get_contracts (m_body src) = [] ->
  fst (import_module s name src) = fst (let r := exec_body s src [] in match r with IOk => ({| meta_path := meta_path s; enabled := enabled s; loaded := name :: loaded s |}, IOk) | e => (s, e) end)
  /\ snd (import_module s name src) = exec_body s src [].
Proof. exact no_declaration_activated. Qed.
Theorem C20_disabled_import_plain : forall s name src,
  enabled s = false ->
  import_module s name src =
    (let r := exec_body s src [] in
     match r with IOk => ({| meta_path := meta_path s; enabled := enabled s; loaded := name :: loaded s |}, IOk) | x => (s, x) end).
Proof. exact disabled_import_plain. Qed.
Print Assumptions C20_disabled_import_plain.
Theorem C20_unsupported_loud : forall s name src e rest,
  active s = true -> enabled s = true -> get_contracts (m_body src) = e :: rest -> exec_contract e = CNone ->
  import_module s name src = (s, IExc "RuntimeError").
Proof. exact unsupported_loud. Qed.
Theorem C20_failed_import_not_registered : forall s name src s1 c,
  import_module s name src = (s1, IExc c) -> s1 = s.
Proof. exact failed_import_not_registered. Qed.
Theorem C20_declared_enforced : forall s name src e c,
  active s = true -> get_contracts (m_body src) = [e] -> exec_contract e = CSome c ->
  import_module s name src =
    (let r := exec_body s src (if enabled s then [c] else []) in
     match r with IOk => ({| meta_path := meta_path s; enabled := enabled s; loaded := name :: loaded s |}, IOk) | x => (s, x) end).
Proof. exact declared_enforced. Qed.
Theorem C20_print_under_pure_fails : forall s name src e,
  active s = true -> enabled s = true -> get_contracts (m_body src) = [e] -> exec_contract e = CSome KPure ->
  run_time_call s src = None -> m_prints src = true ->
  import_module s name src = (s, IExc "SilentContractError").
Proof. exact print_under_pure_fails. Qed.
Theorem C20_bare_contract_pure_or_safe : forall base attr c,
  exec_contract (CAttr base attr) = CSome c -> base = "deal" /\ ((attr = "pure" /\ c = KPure) \/ (attr = "safe" /\ c = KSafe)).
Proof. exact bare_contract_pure_or_safe. Qed.
Theorem C20_bare_factory_rejected : forall s name src attr rest,
  active s = true -> enabled s = true -> get_contracts (m_body src) = CAttr "deal" attr :: rest -> attr <> "pure" -> attr <> "safe" ->
  import_module s name src = (s, IExc "RuntimeError").
Proof. exact bare_factory_rejected. Qed.
Print Assumptions C20_bare_contract_pure_or_safe.
Print Assumptions C20_bare_factory_rejected.
Print Assumptions C20_declared_enforced.
Print Assumptions C20_print_under_pure_fails.
Print Assumptions C20_activate_idempotent.
Print Assumptions C20_deactivate_inverse.
Print Assumptions C20_requires_activation.
Print Assumptions C20_unsupported_loud.
Print Assumptions C20_failed_import_not_registered.

(* refuted at full strength: an aliased declaration is not seen by the loader -- the module prints under deal.pure and imports fine *)
Definition aliased : msource :=
  {| m_body := [TOther; TOther; TLoad "d.module_load" [CAttr "deal" "pure"]; TOther]; m_calls_module_load := Some 1; m_arg_error := None;
     m_prints := true; m_raises := None; m_socket := false |}.
Theorem C20_aliased_declaration_refuted :
  snd (import_module (fst (activate istate0)) "m" aliased) = IOk.
Proof. reflexivity. Qed.
