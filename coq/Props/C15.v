(* Props/C15.v -- property theorems for C15 (generated test cases). Statements only; proofs in Thm/C15/Cases.v; about
   TestCase.__call__, the wrapper of cases._wrap and cases.exceptions regenerated from deal/_testing.py. hypothesis is an oracle
   handing candidates (args, kwargs) to the wrapper. *)
From Coq Require Import List ZArith Bool String.
Import ListNotations.
Require Import Base Prog Sig Interp InterpFacts Model Validators Loops Testing Cases.

(* a candidate reaches the test function iff every precondition of the function accepts it; the case then carries exactly that
   candidate, the function and the exception classes of its raises contracts *)
Theorem C15_valid_case : forall ftab test_func cs n a k w w1 r w2,
  run_vals ftab n (c_pres (cs_contracts cs)) a k None w = Done (inl tt) w1 ->
  interp ftab n (test_func {| tc_func := cs_func cs; tc_args := a; tc_kwargs := k; tc_exceptions := cs_exceptions cs |}) w1 = Done r w2 ->
  interp ftab n (CasesWrapper.run test_func cs (a, k)) w = Done (match r with inl _ => inl tt | inr x => inr x end) w2.
Proof. exact candidate_accepted. Qed.
Print Assumptions C15_valid_case.
Theorem C15_rejected_candidate : forall ftab test_func cs n a k w l1 v l2 w1 x w2,
  c_pres (cs_contracts cs) = (l1 ++ v :: l2)%list ->
  run_vals ftab n l1 a k None w = Done (inl tt) w1 ->
  interp ftab n (validate v a k None) w1 = Done (inr x) w2 -> own_error v x = true ->
  interp ftab n (CasesWrapper.run test_func cs (a, k)) w = Done (inr (mk_exn RejectC [])) w2.
Proof. exact candidate_rejected. Qed.
Print Assumptions C15_rejected_candidate.

(* executing a case: the function's result; NoReturn exactly when an exception admitted by the raises contracts escapes;
   everything else (contract violations included) propagates as the same object *)
Theorem C15_case_returns : forall ftab tc n w v w1,
  interp ftab n (call_decorated (tc_func tc) (tc_args tc) (tc_kwargs tc)) w = Done (inl v) w1 ->
  interp ftab n (TestCaseCall.run tc) w = Done (inl v) w1.
Proof. exact case_returns. Qed.
Theorem C15_case_no_return : forall ftab tc n w e w1,
  interp ftab n (call_decorated (tc_func tc) (tc_args tc) (tc_kwargs tc)) w = Done (inr e) w1 -> suppressed tc e = true ->
  interp ftab n (TestCaseCall.run tc) w = Done (inl NoReturnV) w1.
Proof. exact case_no_return. Qed.
Theorem C15_case_propagates : forall ftab tc n w e w1,
  interp ftab n (call_decorated (tc_func tc) (tc_args tc) (tc_kwargs tc)) w = Done (inr e) w1 -> suppressed tc e = false ->
  interp ftab n (TestCaseCall.run tc) w = Done (inr e) w1.
Proof. exact case_propagates. Qed.
Print Assumptions C15_case_no_return.
Print Assumptions C15_case_propagates.

(* "contract violations propagate" fails exactly when a raises contract declares a superclass of ContractError: every
   ContractError is an AssertionError, so raises(AssertionError) makes the case swallow violations (known finding C03-F3) *)
Example C15_assertion_swallows_violation :
  suppressed {| tc_func := "f"; tc_args := []; tc_kwargs := []; tc_exceptions := [AssertionErrorC] |}
             (mk_exn (deal_err "PostContractError") []) = true.
Proof. reflexivity. Qed.
