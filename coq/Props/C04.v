(* Props/C04.v -- property theorems for C04 (side-effect markers). Statements only; proofs in Thm/C04. *)
From Coq Require Import List ZArith Bool String.
Import ListNotations.
Require Import Base Prog Sig Interp InterpFacts Model HasPatcher Rules PatchFacts PatchBracket Scenario Markers Effects.
Open Scope string_scope.

(* Inside the body of a function decorated with has(M) (outermost activation of its patcher, streams real before):
   stdout / stderr / socket stay real iff M contains one of io/print/stdout, io/stderr, io/network/socket -- for EVERY
   marker list M, custom markers included (the predicates are the ones generated from _has_patcher.py) *)
Theorem C04_patched_iff : forall p s,
  depth (p_id p) s = 0 -> s_out s = Real -> s_err s = Real -> s_sock s = Real ->
  is_real (s_out (patch_st p s)) = has_stdout (p_markers p) /\
  is_real (s_err (patch_st p s)) = has_stderr (p_markers p) /\
  is_real (s_sock (patch_st p s)) = has_network (p_markers p).
Proof. exact patched_iff. Qed.
Print Assumptions C04_patched_iff.
Theorem C04_markers_meaning : forall M,
  has_stdout M = (has_marker "io" M || has_marker "print" M || has_marker "stdout" M) /\
  has_stderr M = (has_marker "io" M || has_marker "stderr" M) /\
  has_network M = (has_marker "io" M || has_marker "network" M || has_marker "socket" M).
Proof.
  intro M. unfold has_stdout, has_stderr, has_network.
  destruct (has_marker "io" M), (has_marker "print" M), (has_marker "stdout" M), (has_marker "stderr" M),
           (has_marker "network" M), (has_marker "socket" M); repeat split; reflexivity.
Qed.
Print Assumptions C04_markers_meaning.

(* a blocked effect raises the silent / offline error, the same with the configured message, or the configured exception *)
Theorem C04_patched_error : forall p s,
  depth (p_id p) s = 0 ->
  (has_stdout (p_markers p) = false -> s_out (patch_st p s) = Patched (p_id p) (get_exception_spec p SilentContractErrorC)) /\
  (has_stderr (p_markers p) = false -> s_err (patch_st p s) = Patched (p_id p) (get_exception_spec p SilentContractErrorC)) /\
  (has_network (p_markers p) = false -> s_sock (patch_st p s) = Patched (p_id p) (get_exception_spec p OfflineContractErrorC)).
Proof. exact patched_error. Qed.
Print Assumptions C04_patched_error.
Theorem C04_effect_blocked : forall ftab n k w id x,
  stream_of k (wst w) = Patched id x ->
  exists e w', interp ftab n (do_effect k) w = Done (inr e) w' /\ cls_eqb (e_cls e) (exc_class x) = true.
Proof. exact effect_blocked. Qed.
Print Assumptions C04_effect_blocked.
(* an allowed effect behaves exactly as without the decorator: it reaches the real stream *)
Theorem C04_effect_allowed : forall ftab n k w,
  stream_of k (wst w) = Real -> interp ftab n (do_effect k) w = Done (inl tt) (on_st (emit (EvEffect k)) w).
Proof. exact effect_allowed. Qed.
Print Assumptions C04_effect_allowed.

(* the implication table is the same at runtime, in the linter and in the documentation, for every marker set *)
Theorem C04_linter_table : forall M m, In m doc_markers -> m <> "io" -> linter_covers M m = spec_covers M m.
Proof. exact linter_table. Qed.
Print Assumptions C04_linter_table.
Theorem C04_runtime_table : forall M,
  has_stdout M = spec_covers M "stdout" /\ has_stderr M = spec_covers M "stderr" /\ has_network M = spec_covers M "network".
Proof. exact runtime_table. Qed.
Print Assumptions C04_runtime_table.
Theorem C04_doc_runtime_bullets : forall M,
  doc_allows M "stdout" = has_stdout M /\ doc_allows M "stderr" = has_stderr M /\ doc_allows M "network" = has_network M.
Proof. exact doc_runtime_bullets. Qed.
Print Assumptions C04_doc_runtime_bullets.
Theorem C04_codes_documented : map (fun r => (fst (fst r), snd (fst r))) DOC_MARKERS = MARKER_CODES.
Proof. exact codes_documented. Qed.

(* non-vacuity *)
Example C04_nonvacuous :
  spec_covers ["io"] "syscall" = true /\ spec_covers ["print"] "stdout" = true /\ spec_covers ["custom"] "stdout" = false /\
  depth 3 st0 = 0 /\ s_out st0 = Real.
Proof. vm_compute. auto. Qed.
