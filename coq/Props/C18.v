(* Props/C18.v -- property theorems for C18 (the linter reports exactly the undeclared exceptions and markers). Statements only;
   proofs in Thm/C18/Lint.v; about Sem/LintModel.v (extractors, source pinned by Gen/LintPin.v) with the coverage predicates
   regenerated in Gen/Rules.v and Gen/HasPatcher.v. *)
From Coq Require Import List ZArith Bool String.
Import ListNotations.
Require Import Base Model HasPatcher Rules LintPin LintModel Lint.
Open Scope string_scope.
Local Open Scope list_scope.

Theorem C18_raises_iff : forall t us f n,
  In n (check_raises t us f) <->
  raises_decls (l_decls f) <> [] /\ exists c, In c (get_exceptions t us (l_body f)) /\ c_name c = n /\ linter_admits (raises_decls (l_decls f)) c = false.
Proof. exact raises_iff. Qed.
Theorem C18_markers_iff : forall t us f M m,
  first_has (l_decls f) = Some M ->
  (In m (check_markers t us f) <->
   (m = "io" /\ has_io M = false /\ l_has_self f = false /\ has_returns (l_body f) = false) \/
   (exists m0, In m0 (get_markers t us (l_body f)) /\ linter_covers M m0 = false /\ m = linter_canon m0)).
Proof. exact markers_iff. Qed.
Theorem C18_subclass_aware : forall cs c d ds, In ds cs -> In d ds -> issubclass c d = true -> linter_admits cs c = true.
Proof. exact subclass_admitted. Qed.
Theorem C18_raises_monotone : forall t us body ds ds' hs,
  raises_decls ds <> [] -> incl (List.concat (raises_decls ds)) (List.concat (raises_decls ds')) ->
  incl (check_raises t us {| l_body := body; l_decls := ds'; l_has_self := hs |}) (check_raises t us {| l_body := body; l_decls := ds; l_has_self := hs |}).
Proof. exact raises_monotone. Qed.
Theorem C18_markers_monotone : forall t us f M M', incl M M' -> incl (undeclared_markers t us f M') (undeclared_markers t us f M).
Proof. exact markers_monotone. Qed.
Theorem C18_implication_aware : forall M M' m, incl M M' -> linter_covers M m = true -> linter_covers M' m = true.
Proof. exact covers_mono. Qed.
Theorem C18_alias_markers : forall M,
  linter_covers M "print" = linter_covers M "stdout" /\ linter_covers M "socket" = linter_covers M "network" /\
  linter_covers M "input" = linter_covers M "stdin" /\ linter_covers M "nonlocal" = linter_covers M "global".
Proof. exact alias_markers. Qed.
Theorem C18_try_body_not_inspected : forall t us b b' hs e f, get_exceptions t us [STry b hs e f] = get_exceptions t us [STry b' hs e f].
Proof. exact try_body_not_inspected. Qed.
Theorem C18_try_body_markers_inspected : forall t us b hs e f m, In m (get_markers t us b) -> In m (get_markers t us [STry b hs e f]).
Proof. exact try_body_markers_inspected. Qed.
Theorem C18_one_level : forall t k f,
  lookup t f = Some k -> k_stub k = None ->
  get_exceptions t false [SLeaf (LCall f)] = flat_map exc_own (visited (k_body k)) ++ k_raises k ++ k_doc k.
Proof. exact callee_calls_not_followed. Qed.
Theorem C18_stub_exact : forall t body, stub_of t body = (map c_name (get_exceptions t true body), get_markers t true body).
Proof. exact stub_lists_extractor_output. Qed.
Theorem C18_caller_charged_stub_entries : forall t f k rs ms,
  lookup t f = Some k -> k_stub k = Some (rs, ms) ->
  get_exceptions t true [SLeaf (LCall f)] = rs /\ get_markers t true [SLeaf (LCall f)] = ms.
Proof. exact caller_charged_stub_entries. Qed.
Print Assumptions C18_raises_iff.
Print Assumptions C18_alias_markers.
Print Assumptions C18_markers_iff.
Print Assumptions C18_raises_monotone.
Print Assumptions C18_markers_monotone.
Print Assumptions C18_implication_aware.
Print Assumptions C18_caller_charged_stub_entries.

(* non-vacuity: a declared function with an undeclared and a covered effect *)
Example C18_example :
  let f := {| l_body := [SLeaf (LRaise KeyErrorC); SLeaf (LRaise ValueErrorC); SLeaf LPrint; SLeaf LOpenW];
              l_decls := [DRaises [under_exception "LookupError" []]; DHas ["stdout"]]; l_has_self := false |} in
  check_raises [] false f = ["ValueError"] /\ check_markers [] false f = ["write"].
Proof. split; reflexivity. Qed.

(* refuted at full strength (known findings; replayed on the implementation by the C18 family) *)
Theorem C18_uncaught_in_try_refuted :
  check_raises [] false {| l_body := [STry [SLeaf (LRaise ValueErrorC)] [(Some KeyErrorC, [SLeaf LPass])] [] []]; l_decls := [DRaises []]; l_has_self := false |} = [].
Proof. exact uncaught_in_try_not_reported. Qed.
Theorem C18_second_has_refuted :
  check_markers [] false {| l_body := [SLeaf LPrint; SLeaf LReturn]; l_decls := [DHas []; DHas ["stdout"]]; l_has_self := false |} = ["stdout"] /\
  check_markers [] false {| l_body := [SLeaf LPrint; SLeaf LReturn]; l_decls := [DHas ["stdout"]; DHas []]; l_has_self := false |} = [].
Proof. exact second_has_ignored. Qed.
Theorem C18_io_covered_by_child_refuted :
  check_markers [("g", {| k_body := []; k_raises := []; k_has := ["io"]; k_doc := []; k_stub := None |})] false
    {| l_body := [SLeaf (LCall "g"); SLeaf LReturn]; l_decls := [DHas ["stdout"]]; l_has_self := false |} = [].
Proof. exact io_covered_by_child. Qed.
