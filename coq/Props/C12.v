(* Props/C12.v -- property theorems for C12 (dispatch). Statements only; proofs in Thm/C12/DispatchThm.v.
   About Dispatch.__call__ regenerated from deal/_runtime/_dispatch.py. [disp_ref] tries the implementations in registration
   order; an implementation is skipped exactly when it fails with a PreContractError whose origin is its own function. *)
From Coq Require Import List ZArith Bool String.
Import ListNotations.
Require Import Base Prog Sig Interp InterpFacts Model Dispatch DispatchThm.

(* the first implementation that does not mismatch decides: its value or its exception (whatever it is: a custom-typed
   precondition error, a precondition error of a deeper call, any other exception) is the outcome; no later implementation
   is called (the result is determined by the prefix); the switch is forced on during the search and restored afterwards *)
Theorem C12_first_match : forall ftab co n d a k w r w1,
  disp_ref ftab co n (d_functions d) a k [] (dbg true w) = DFound r w1 ->
  interp ftab n (DispatchCall.run co d a k) w = Done r (dbg (debug (wst w)) w1).
Proof. exact dispatch_found. Qed.
Print Assumptions C12_first_match.

(* if every implementation mismatches: NoMatchError listing one failure per implementation, in order; switch restored *)
Theorem C12_no_match : forall ftab co n d a k w acc w1,
  disp_ref ftab co n (d_functions d) a k [] (dbg true w) = DNone acc w1 ->
  exists x w', interp ftab n (DispatchCall.run co d a k) w = Done (inr x) w' /\
               cls_eqb (e_cls x) NoMatchErrorC = true /\
               e_args x = [VTuple (map (fun y => match e_deal y with Some dd => match d_origin dd with Some f => VStr f | None => VNone end | None => VNone end) acc)] /\
               debug (wst w') = debug (wst w).
Proof. exact dispatch_no_match. Qed.
Print Assumptions C12_no_match.

(* what counts as a mismatch: a PreContractError (or subclass instance) raised for the implementation's own function *)
Theorem C12_mismatch_def : forall co f x,
  mismatch co f x = (H_PreContractError x && negb (opt_is_none (co f)) && origin_is x (co f))%bool.
Proof. reflexivity. Qed.

Example C12_nonvacuous :
  exists w1, disp_ref (fun _ => None) (fun _ => None) 3 [] [] [] [] w_init = DNone [] w1.
Proof. eexists. reflexivity. Qed.
