(* Props/C11.v -- property theorems for C11 (inherited contracts). Statements only; proofs in Thm/C11/Inherit.v; about the
   class-table model Sem/ClassModel.v of Inherit._patch (source pinned by Gen/ObjPin.v) over the C3 linearisation Py/Mro.v. *)
From Coq Require Import List Bool String.
Import ListNotations.
Require Import Base Mro Show ClassModel ObjPin Inherit.
Open Scope string_scope.

Theorem C11_own : forall n t cls name owner m c,
  resolve t cls name = Some (owner, m) -> In c (m_contracts m) -> In c (enforced_n (S n) t cls name).
Proof. exact own_contracts. Qed.
Print Assumptions C11_own.
(* for every class `base` after the defining class in its MRO: every contract of the method that `base` resolves the name to *)
Theorem C11_all_ancestors : forall n t cls name owner m base o2 bm c,
  resolve t cls name = Some (owner, m) -> m_inherit m = true ->
  In base (tl (mro_of (hierarchy t) owner)) ->
  resolve t base name = Some (o2, bm) -> resolve t o2 name = Some (o2, bm) ->
  In c (m_contracts bm) ->
  In c (enforced_n (S (S n)) t cls name).
Proof. exact ancestor_contracts. Qed.
Print Assumptions C11_all_ancestors.
Theorem C11_uncontracted_unchanged : forall n t cls name owner m,
  resolve t cls name = Some (owner, m) -> m_inherit m = false -> enforced_n (S n) t cls name = m_contracts m.
Proof. exact not_inherit_unchanged. Qed.

(* non-vacuity: a diamond D(B, C), B(A), C(A); A.m has contract 1, C.m has contract 2, D.m is marked inherit with contract 3 *)
Definition dia : class_table :=
  [ {| c_cname := "A"; c_bases := []; c_methods := [("m", {| m_contracts := [1]; m_inherit := false |})] |};
    {| c_cname := "B"; c_bases := ["A"]; c_methods := [] |};
    {| c_cname := "C"; c_bases := ["A"]; c_methods := [("m", {| m_contracts := [2]; m_inherit := false |})] |};
    {| c_cname := "D"; c_bases := ["B"; "C"]; c_methods := [("m", {| m_contracts := [3]; m_inherit := true |})] |} ].
Example C11_nonvacuous :
  mro_of (hierarchy dia) "D" = ["D"; "B"; "C"; "A"; "object"] /\
  enforced dia "D" "m" = [3; 1; 2; 1].
Proof. split; vm_compute; reflexivity. Qed.
