(* Props/C11.v -- property theorems for C11 (inherited contracts). Statements only; proofs in Thm/C11/Inherit.v; about the
   class-table model Sem/ClassModel.v of Inherit._patch (source pinned by Gen/ObjPin.v) over the C3 linearisation Py/Mro.v. *)
From Coq Require Import List Bool String.
Import ListNotations.
Require Import Base Mro Show ClassModel ObjPin Inherit Interp ObjModel InheritHeap HeapPatchers HeapFrame HeapBuild MroFacts HeapCheck HeapClosed.
Open Scope string_scope.

Theorem C11_own : forall n t cls name owner m c,
  resolve t cls name = Some (owner, m) -> In c (m_contracts m) -> In c (enforced_n (S n) t cls name).
Proof. exact own_contracts. Qed.
Print Assumptions C11_own.
(* for every class `base` after the defining class in its MRO: every contract of the method that `base` resolves the name to *)
Theorem C11_all_ancestors : forall n t cls name owner m base o2 bm c,
  resolve t cls name = Some (owner, m) -> m_inherit m = true ->
  In base (tl (mro_of (hierarchy t) owner)) ->
  resolve t base name = Some (o2, bm) -> resolve t o2 name = Some (o2, bm) ->
  In c (m_contracts bm) ->
  In c (enforced_n (S (S n)) t cls name).
Proof. exact ancestor_contracts. Qed.
Print Assumptions C11_all_ancestors.
Theorem C11_uncontracted_unchanged : forall n t cls name owner m,
  resolve t cls name = Some (owner, m) -> m_inherit m = false -> enforced_n (S n) t cls name = m_contracts m.
Proof. exact not_inherit_unchanged. Qed.

(* non-vacuity: a diamond D(B, C), B(A), C(A); A.m has contract 1, C.m has contract 2, D.m is marked inherit with contract 3 *)
Definition dia : class_table :=
  [ {| c_cname := "A"; c_bases := []; c_methods := [("m", {| m_contracts := [1]; m_inherit := false |})] |};
    {| c_cname := "B"; c_bases := ["A"]; c_methods := [] |};
    {| c_cname := "C"; c_bases := ["A"]; c_methods := [("m", {| m_contracts := [2]; m_inherit := false |})] |};
    {| c_cname := "D"; c_bases := ["B"; "C"]; c_methods := [("m", {| m_contracts := [3]; m_inherit := true |})] |} ].
Example C11_nonvacuous :
  mro_of (hierarchy dia) "D" = ["D"; "B"; "C"; "A"; "object"] /\
  enforced dia "D" "m" = [3; 1; 2; 1].
Proof. split; vm_compute; reflexivity. Qed.

(* ---- on the heap-level model (Sem/InheritHeap.v: registries, patchers and class dictionaries as mutable shared objects) ---- *)
(* "Methods without a contracted ancestor behave unchanged", and more: whatever is looked up, on whatever class, in whatever order,
   the registry of a method that is not marked inherit stays as it is (and the method stays in its class) *)
Theorem C11_plain_method_registry_unchanged : forall rank fuel w cls w1 res c o r,
  wwf w -> hier_ok w rank -> attr_of w c = Some (AFunc o) -> own_wrapper (w_heap w) o = Some r ->
  getattr_n fuel w cls = Some (w1, res) ->
  get_reg (w_heap w1) r = get_reg (w_heap w) r /\ attr_of w1 c = Some (AFunc o).
Proof. exact plain_method_registry_unchanged. Qed.
Print Assumptions C11_plain_method_registry_unchanged.
(* every registry that exists and is not the own registry of an inherit-marked method held by no class as a plain method *)
Theorem C11_lookup_frame : forall rank fuel w cls w1 res r,
  wwf w -> hier_ok w rank -> getattr_n fuel w cls = Some (w1, res) ->
  r < nregs (w_heap w) -> ~ Mut w r -> get_reg (w_heap w1) r = get_reg (w_heap w) r.
Proof. exact lookup_frame. Qed.
Print Assumptions C11_lookup_frame.
(* the hypotheses are preserved, so the two statements hold along any sequence of look-ups *)
Theorem C11_lookup_preserves_wf : forall rank fuel w cls w1 res,
  wwf w -> hier_ok w rank -> getattr_n fuel w cls = Some (w1, res) -> wwf w1 /\ hier_ok w1 rank.
Proof.
  intros rank fuel w cls w1 res W H0 Hg. destruct (getattr_ok rank fuel w cls w1 res W H0 Hg) as (W1 & E1 & _).
  split; [exact W1|eapply hier_ok_ext; eassumption].
Qed.
Print Assumptions C11_lookup_preserves_wf.
(* no look-up and no class statement changes the marker set of a patcher that exists: a has() contract of another function, or of
   the base class method, admits afterwards what it admitted before *)
Theorem C11_patcher_markers_never_change : forall fuel w cls w1 r p m,
  nlookup p (h_pmarkers (w_heap w)) = Some m -> getattr_n fuel w cls = Some (w1, r) -> markers_of (w_heap w1) p = m.
Proof. exact patcher_markers_never_change. Qed.
Print Assumptions C11_patcher_markers_never_change.
Theorem C11_patcher_markers_survive_definitions : forall fuel patchers l w p m,
  nlookup p patchers = Some m -> define_all fuel (world0 patchers) l = Some w -> markers_of (w_heap w) p = m.
Proof. exact patcher_markers_survive_definitions. Qed.
Print Assumptions C11_patcher_markers_survive_definitions.
(* the hypotheses are decidable; the C11 family evaluates them on every world of every generated scenario *)
Theorem C11_hypotheses_checkable : forall w, wwf_b w = true -> hier_ok_b w = true -> wwf w /\ hier_ok w (rank_of w).
Proof. intros w A B. split; [apply wwf_b_sound; exact A|apply hier_ok_b_sound; exact B]. Qed.
Print Assumptions C11_hypotheses_checkable.

(* every world built from scratch by class statements satisfies wwf; what is left as a hypothesis is a computation about the class
   list only: distinct names, and for every prefix of the list two facts about its C3 linearisations (Py/Mro.v, the validated model of
   CPython's type.mro()): a linearisation starts with its class; everything in the linearisation of a base was defined earlier *)
Theorem C11_built_worlds_wf : forall fuel patchers specs w,
  prefixes_ok_b [] specs (spec_rank specs) = true -> define_all fuel (world0 patchers) specs = Some w -> wwf w.
Proof. exact built_world_wwf_b. Qed.
Print Assumptions C11_built_worlds_wf.
Theorem C11_built_plain_method_unchanged : forall fuel0 fuel patchers specs w cls w1 res c o r,
  prefixes_ok_b [] specs (spec_rank specs) = true -> define_all fuel0 (world0 patchers) specs = Some w -> hier_ok_b w = true ->
  attr_of w c = Some (AFunc o) -> own_wrapper (w_heap w) o = Some r ->
  getattr_n fuel w cls = Some (w1, res) ->
  get_reg (w_heap w1) r = get_reg (w_heap w) r /\ attr_of w1 c = Some (AFunc o).
Proof.
  intros fuel0 fuel patchers specs w cls w1 res c o r Hp Hd Hh. apply (plain_method_registry_unchanged (rank_of w)).
  - eapply built_world_wwf_b; eassumption.
  - apply hier_ok_b_sound. exact Hh.
Qed.
Print Assumptions C11_built_plain_method_unchanged.

(* closed: for EVERY list of class statements with distinct names (none called "object") whose bases are classes defined earlier
   -- every program the model can express and Python accepts -- the world it builds meets wwf and hier_ok (the two C3 facts are proved
   of Py/Mro.v in Thm/C11/MroFacts.v), so the frame statements hold with no hypothesis about the world *)
Theorem C11_good_world : forall fuel patchers specs w,
  good_specs specs -> define_all fuel (world0 patchers) specs = Some w -> wwf w /\ hier_ok w (spec_rank specs).
Proof. exact good_world. Qed.
Print Assumptions C11_good_world.
Theorem C11_good_plain_method_registry_unchanged : forall fuel0 fuel patchers specs w cls w1 res c o r,
  good_specs specs -> define_all fuel0 (world0 patchers) specs = Some w ->
  attr_of w c = Some (AFunc o) -> own_wrapper (w_heap w) o = Some r ->
  getattr_n fuel w cls = Some (w1, res) ->
  get_reg (w_heap w1) r = get_reg (w_heap w) r /\ attr_of w1 c = Some (AFunc o).
Proof. exact good_plain_method_registry_unchanged. Qed.
Print Assumptions C11_good_plain_method_registry_unchanged.
Theorem C11_good_lookup_frame : forall fuel0 fuel patchers specs w cls w1 res r,
  good_specs specs -> define_all fuel0 (world0 patchers) specs = Some w ->
  getattr_n fuel w cls = Some (w1, res) -> r < nregs (w_heap w) -> ~ Mut w r -> get_reg (w_heap w1) r = get_reg (w_heap w) r.
Proof. exact good_lookup_frame. Qed.
Print Assumptions C11_good_lookup_frame.
Theorem C11_good_specs_decidable : forall specs, good_specs_b specs = true -> good_specs specs.
Proof. exact good_specs_b_sound. Qed.

(* non-vacuity: B1.m has('stdout') + pre 10, B2.m has('network') + pre 20, C(B1, B2).m marked inherit, D(B1) and E(B1) class-decorated
   (two Inherit objects holding B1's function): all worlds on the way satisfy the hypotheses; C enforces both, B1 is as it was *)
Definition heap_classes : list cspec :=
  [ {| cs_name := "B1"; cs_bases := []; cs_method := Some {| ms_steps := [SHas 1; SVal KPre 10]; ms_inherit := false |}; cs_inherit := false |};
    {| cs_name := "B2"; cs_bases := []; cs_method := Some {| ms_steps := [SHas 2; SVal KPre 20]; ms_inherit := false |}; cs_inherit := false |};
    {| cs_name := "C"; cs_bases := ["B1"; "B2"]; cs_method := Some {| ms_steps := []; ms_inherit := true |}; cs_inherit := false |};
    {| cs_name := "D"; cs_bases := ["B1"]; cs_method := None; cs_inherit := true |};
    {| cs_name := "E"; cs_bases := ["B1"]; cs_method := None; cs_inherit := true |} ].
Definition heap_patchers := [(1, ["stdout"]); (2, ["network"])].
Definition after (qs : list string) : option world :=
  fold_left (fun ow c => match ow with Some w => option_map fst (getattr_n 40 w c) | None => None end) qs (define_all 40 (world0 heap_patchers) heap_classes).
Definition force (ow : option world) (c : string) :=
  match ow with Some w => match getattr_n 40 w c with Some (w1, Some o) => Some (in_force (w_heap w1) o) | _ => None end | None => None end.
Example C11_heap_nonvacuous :
  good_specs_b heap_classes = true /\
  run_case_wf heap_patchers heap_classes = true /\
  force (after []) "C" = Some ([(KPre, 10); (KPre, 20)], Some ["stdout"; "network"]) /\
  force (after ["C"; "D"; "E"]) "B1" = Some ([(KPre, 10)], Some ["stdout"]) /\
  force (after ["E"; "C"]) "D" = Some ([(KPre, 10)], Some ["stdout"]) /\
  match after ["C"; "D"; "E"] with Some w => wwf_b w && hier_ok_b w | None => false end = true.
Proof. vm_compute. repeat split. Qed.

(* C11-F1 (open finding), pinned: has() contracts are merged by UNION of the marker sets. P.m declares has('network'), K(P).m is marked
   inherit and declares has('stdout') itself: what is in force on K.m admits 'network' (which K.m's own contract forbids) and 'stdout'
   (which the inherited contract forbids), so neither its own nor the ancestor's marker contract is enforced. *)
Definition union_classes : list cspec :=
  [ {| cs_name := "P"; cs_bases := []; cs_method := Some {| ms_steps := [SHas 2]; ms_inherit := false |}; cs_inherit := false |};
    {| cs_name := "K"; cs_bases := ["P"]; cs_method := Some {| ms_steps := [SHas 1]; ms_inherit := true |}; cs_inherit := false |} ].
Example C11_has_merged_by_union_refuted :
  match define_all 40 (world0 heap_patchers) union_classes with
  | Some w => match getattr_n 40 w "K" with Some (w1, Some o) => snd (in_force (w_heap w1) o) | _ => None end
  | None => None end = Some ["stdout"; "network"].
Proof. vm_compute. reflexivity. Qed.
