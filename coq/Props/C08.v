(* Props/C08.v -- property theorems for C08 (process-global state is restored). Statements only; proofs in Thm/C08, Thm/Common.
   Wrappers are RunSync as regenerated from deal/_runtime/_contracts.py; patch/unpatch as regenerated from _has_patcher.py. *)
From Coq Require Import List ZArith Bool String Lia.
Import ListNotations.
Require Import Base Prog Sig Interp InterpFacts Model Validators HasPatcher Contracts PatchFacts PatchBracket FrameCore Frame.

(* The synchronous fragment, in full generality: any table of contracted plain functions whose bodies and validators are
   arbitrary user code (returning, raising anything, printing, creating exception objects, calling any contracted function:
   recursion and nesting of any depth), any registry on each function (any pre/post/ensure/raises/reason lists, any has()
   patcher, shared or not), any arguments, any fuel: when the outermost call has finished -- normally or with any
   exception, wherever it was raised -- the switch, the removed flag, sys.stdout, sys.stderr, socket.socket and the depth
   of every patcher are what they were, and the save slots of patchers that were active before are untouched. *)
Theorem C08_restore_sync :
  forall ftab lf, tab_ok ftab lf ->
  forall n f a kw w r w',
    interp ftab n (call_decorated f a kw) w = Done r w' -> inv_rel (wst w) (wst w').
Proof. intros ftab lf Htab n f a kw w r w' H. eapply call_frame; eassumption. Qed.
Print Assumptions C08_restore_sync.

(* the same for any piece of user code, in particular a validator or a body *)
Theorem C08_restore_user_code :
  forall ftab lf, tab_ok ftab lf -> forall n A (p : prog A), user_ok p ->
  forall w r w', interp ftab n p w = Done r w' -> inv_rel (wst w) (wst w').
Proof. intros ftab lf Htab n A p Hok. exact (@frame_all ftab lf Htab n A p Hok). Qed.
Print Assumptions C08_restore_user_code.

(* patch ... unpatch as generated: re-entrant use only counts; the outermost pair restores what patch found *)
Theorem C08_patch_bracket : forall p s s2, inv_rel (patch_st p s) s2 -> inv_rel s (unpatch_st p s2).
Proof. exact bracket_patch. Qed.
Print Assumptions C08_patch_bracket.
Theorem C08_patch_is_patch_st : forall ftab n p w, interp ftab n (Patch.run p) w = Done (inl tt) (on_st (patch_st p) w).
Proof. intros. apply patch_interp. Qed.
Theorem C08_unpatch_is_unpatch_st : forall ftab n p w, interp ftab n (Unpatch.run p) w = Done (inl tt) (on_st (unpatch_st p) w).
Proof. intros. apply unpatch_interp. Qed.

(* non-vacuity: a table where f (under has() with no markers, a precondition and a post) prints, calls itself recursively
   through its own wrapper and then g; it satisfies tab_ok, and a call runs to completion *)
Definition ex_pre : validator :=
  {| v_id := 1; v_class := VCPlain; v_exception := EClass (deal_err "PreContractError"); v_message := VNone;
     v_vsig := [{| p_name := "n"; p_kind := PosOrKw; p_default := None |}];
     v_raw := fun _ => log (EvEffect KErr) ;;; Ret (VBool true);
     v_function := Some "f"; v_fsig := None; v_exceptions := []; v_event := ExceptionC |}.
Definition ex_c : contracts :=
  {| c_func := "f"; c_pres := [ex_pre]; c_posts := []; c_ensures := []; c_examples := []; c_raises := []; c_reasons := [];
     c_patcher := Some {| p_id := 7; p_markers := []; p_message := VNone; p_exception := EClass MarkerErrorC |} |}.
Definition ex_body_f (a : pargs) (k : pkwargs) : prog value :=
  match a with
  | [VInt 0] => r <- trigger (Call "g" [] []) ;; lift_res r
  | _ => r <- trigger (Call "f" [VInt 0] []) ;; lift_res r
  end.
Definition ex_tab (f : fid) : option fdef :=
  if String.eqb f "f" then Some {| f_kind := KSync; f_wrapper := RunSync.run 5 ex_c; f_body := ex_body_f; f_accepts := fun _ _ => true; f_binds := fun _ _ => true |}
  else if String.eqb f "g" then Some {| f_kind := KSync; f_wrapper := fun a k => call_func "g" a k; f_body := fun _ _ => Raise (mk_exn KeyErrorC []); f_accepts := fun _ _ => true; f_binds := fun _ _ => true |}
  else None.
Lemma lift_ok (r : value + exn) : user_ok (lift_res r).
Proof. destruct r; constructor. Qed.
Example C08_nonvacuous_tab : tab_ok ex_tab 5.
Proof.
  intros f d. unfold ex_tab. destruct (String.eqb f "f") eqn:Ef; [|destruct (String.eqb f "g") eqn:Eg; [|discriminate]].
  - intro E; inversion E; subst; clear E. cbn [f_kind f_body f_wrapper]. split; [reflexivity|]. split.
    + intros a k. unfold ex_body_f. destruct a as [|[[| |]| | | | | | | | |] [|? ?]]; cbn [bind trigger]; apply U_Call; intro; apply lift_ok.
    + left. exists ex_c. split; [reflexivity|]. unfold contracts_ok. cbn [ex_c c_pres c_posts c_ensures c_raises c_reasons].
      split; [|repeat split; apply Forall_nil].
      apply Forall_cons; [|apply Forall_nil]. intro b0. cbn [ex_pre v_raw].
      unfold log, modify, act, trigger. cbn [bind]. apply U_Simple; [apply benign_emit|intro; constructor].
  - intro E; inversion E; subst; clear E. cbn [f_kind f_body f_wrapper]. split; [reflexivity|]. split.
    + intros a k. constructor.
    + right. apply String.eqb_eq in Eg. subst f. reflexivity.
Qed.
Example C08_nonvacuous_run :
  exists r w', interp ex_tab 9 (call_decorated "f" [VInt 1] []) w_init = Done r w' /\
               s_out (wst w') = Real /\ debug (wst w') = true.
Proof. eexists; eexists. split; [vm_compute; reflexivity|]. split; reflexivity. Qed.
