(* Props/C06.v -- property theorems for C06 (satisfied contracts are transparent). Statements only; proofs in Thm/C06, Thm/C01. *)
From Coq Require Import List ZArith Bool String.
Import ListNotations.
Require Import Base Prog Sig Interp InterpFacts Model Validators HasPatcher Contracts Scenario Show Loops PatchFacts Gate Post Transparent.
Open Scope string_scope.

(* every contract accepts: the body is called with exactly (a, k) and the caller receives exactly its value v (sync) *)
Theorem C06_sync : forall ftab lf c n a k w w1 v w2 w3,
  debug (wst w) = true ->
  run_vals ftab n (c_pres c) a k None (dbg false w) = Done (inl tt) w1 ->
  interp ftab n (call_func (c_func c) a k) (patch_w c (dbg true w1)) = Done (inl v) w2 ->
  run_posts ftab n c a k v (dbg false (unpatch_w c w2)) = Done (inl tt) w3 ->
  interp ftab n (RunSync.run lf c a k) w = Done (inl v) (dbg true w3).
Proof. exact sync_transparent. Qed.
Print Assumptions C06_sync.
(* the same for a coroutine whose awaited body completes *)
Theorem C06_async : forall ftab lf c n a k w w1 v w2 w3,
  debug (wst w) = true ->
  run_vals ftab n (c_pres c) a k None (dbg false w) = Done (inl tt) w1 ->
  interp ftab n (call_func (c_func c) a k) (patch_w c (dbg true w1)) = Done (inl v) w2 ->
  run_posts ftab n c a k v (dbg false (unpatch_w c w2)) = Done (inl tt) w3 ->
  interp ftab n (RunAsync.run lf c a k) w = Done (inl v) (dbg true w3).
Proof. exact async_transparent. Qed.
Print Assumptions C06_async.
(* contracts disabled: the wrapper is the original call -- same outcome (value or exception object), same final world,
   hence no validator event and no patching *)
Theorem C06_disabled_sync : forall ftab lf c n a k w r w1,
  debug (wst w) = false ->
  interp ftab n (call_func (c_func c) a k) w = Done r w1 -> interp ftab n (RunSync.run lf c a k) w = Done r w1.
Proof. exact disabled_sync. Qed.
Theorem C06_disabled_async : forall ftab lf c n a k w r w1,
  debug (wst w) = false ->
  interp ftab n (call_func (c_func c) a k) w = Done r w1 -> interp ftab n (RunAsync.run lf c a k) w = Done r w1.
Proof. exact disabled_async. Qed.
Print Assumptions C06_disabled_sync.

(* Generators, whole iteration protocol: REFUTED on the current tree. A generator that yields 1 and then yields what was sent
   to it: bare, send(42) yields 42; decorated with an always-true post, send(42) yields None (the wrapper advances with next()). *)
Definition gsig : sig := [{| p_name := "a"; p_kind := PosOrKw; p_default := None |}].
Definition gbody : list bstmt := [BYield (EConst (VInt 1)); BYield (EVar "sent"); BReturn (EConst (VInt 9))].
Definition g_dec : sfun := {| sf_name := "f"; sf_kind := KGen; sf_sig := gsig;
  sf_stack := [CPost {| sv_id := 1; sv_sig := [{| p_name := "result"; p_kind := PosOrKw; p_default := None |}]; sv_expr := EConst (VBool true); sv_msg := VNone; sv_exc := None |}];
  sf_body := gbody |}.
Definition g_bare : sfun := {| sf_name := "f0"; sf_kind := KGen; sf_sig := gsig; sf_stack := []; sf_body := gbody |}.
Definition outcomes_of (f : fid) : option (list outcome) :=
  match run_scenario {| sc_funs := [g_dec; g_bare]; sc_dispatch := []; sc_driver := [AGenNew 0 f [VInt 1] []; ANext 0; ASend 0 (VInt 42); ANext 0] |} with
  | Done (inl l) _ => Some (map fst l) | _ => None end.
Theorem C06_iter_protocol_refuted :
  outcomes_of "f0" = Some [ORet (VGen 0); OYield (VInt 1); OYield (VInt 42); OStop (VInt 9)] /\
  outcomes_of "f" = Some [ORet (VGen 0); OYield (VInt 1); OYield VNone; OStop VNone].
Proof. split; vm_compute; reflexivity. Qed.
Print Assumptions C06_iter_protocol_refuted.
