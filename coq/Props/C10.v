(* Props/C10.v -- property theorems for C10 (violation errors). Statements only; proofs in Thm/C10/Errors.v.
   About Validator._exception / Validator.__init__ regenerated from deal/_runtime/_validators.py and the tables regenerated
   from _decorators.py / _exceptions.py. The configuration space (class or instance, ContractError subclass or not, returned
   message or not, errors or not, params or not) is covered completely by case analysis. *)
From Coq Require Import List ZArith Bool String.
Import ListNotations.
Require Import Base Prog Sig Interp InterpFacts Model Validators Decorators Errors.
Open Scope string_scope.

(* what the generated _exception builds, in closed form, in every world *)
Theorem C10_exception_closed_form : forall ftab n v message errors params s g,
  interp ftab n (VException.run v message errors params) {| wst := s; gens := g |} =
  Done (inl (vexception_spec v message errors params (next_id s))) {| wst := bump s; gens := g |}.
Proof. intros. apply run_simple_sound, vexception_simple. Qed.
Print Assumptions C10_exception_closed_form.

(* the raised object is an instance of the configured class *)
Theorem C10_type : forall v m e p id, e_cls (vexception_spec v m e p id) = exc_class (v_exception v).
Proof. exact spec_type. Qed.
(* message precedence: the validator-returned text, else the text of the configured exception instance -- into which
   Validator.__init__ folds a configured `message=` when the exception was given as a class *)
Theorem C10_message_returned : forall x r, truthy r = true -> effective_message x r = r.
Proof. exact msg_returned. Qed.
Theorem C10_message_instance : forall c a al r, truthy r = false -> effective_message (EInst c (a :: al)) r = a.
Proof. exact msg_instance. Qed.
Theorem C10_configured_message : forall ftab n message exception s g,
  interp ftab n (ValidatorInit.run message exception) {| wst := s; gens := g |} =
  Done (inl (message, if truthy message && negb (exc_is_instance exception) then EInst (exc_class exception) [message] else exception)) {| wst := s; gens := g |}.
Proof. intros. apply run_simple_sound, validator_init_simple. Qed.
Print Assumptions C10_configured_message.
(* deal's own error types expose the function, the parameters of the failing call and the message *)
Theorem C10_deal_fields : forall v m e p id,
  subclass_of (exc_class (v_exception v)) "ContractError" = true ->
  exists d, e_deal (vexception_spec v m e p id) = Some d /\
            d_params d = match p with Some x => x | None => [] end /\ d_origin d = v_function v /\
            d_message d = match effective_message (v_exception v) m with VStr s => s | _ => "" end.
Proof. exact spec_deal. Qed.
Theorem C10_plain_exception : forall v m e p id,
  subclass_of (exc_class (v_exception v)) "ContractError" = false ->
  e_args (vexception_spec v m e p id) =
  ((if truthy (effective_message (v_exception v) m) then [effective_message (v_exception v) m] else []) ++ (if truthy e then [e] else []))%list
  /\ e_deal (vexception_spec v m e p id) = None.
Proof. exact spec_plain. Qed.
(* the per-kind defaults read from _decorators.py are ContractError subclasses; ContractError is an AssertionError *)
Theorem C10_defaults :
  forallb (fun r => let d := snd r in String.eqb d "ContractError" || existsb (String.eqb "ContractError") (ancestors 4 d)) DECORATORS = true
  /\ existsb (String.eqb "AssertionError") (ancestors 4 "ContractError") = true.
Proof. exact defaults_are_contract_errors. Qed.
Print Assumptions C10_deal_fields.
Print Assumptions C10_defaults.

Example C10_nonvacuous :
  effective_message (EInst (deal_err "PreContractError") [VStr "configured"]) (VBool false) = VStr "configured" /\
  effective_message (EInst (deal_err "PreContractError") [VStr "configured"]) (VStr "returned") = VStr "returned" /\
  subclass_of (deal_err "PreContractError") "ContractError" = true.
Proof. vm_compute. auto. Qed.
