(* Props/C17.v -- property theorems for C17 (linter partial execution agrees with the runtime). Statements only; proofs in
   Thm/C17/Exec.v; about Sem/LintExec.v (the template tail, Rule._validate, the pre extractor's test; source pinned by
   Gen/ExecPin.v). The runtime verdict is the outcome of the runtime's own Validator.validate, which the template runs: the C17
   family obtains it by performing the same call on the imported module. Extraction of literal values and resolution of callees
   (ast.literal_eval, astroid) are oracles checked differentially. *)
From Coq Require Import List ZArith Bool String.
Import ListNotations.
Require Import Base ExecPin LintExec Exec.
Open Scope string_scope.

Theorem C17_verdict_iff_rejected : forall default o,
  (o = Accepted \/ plain_rejection o \/ exists c, o = Crashed c) ->
  (lint_verdict default o <> None <-> plain_rejection o).
Proof. exact verdict_iff_rejected. Qed.
Theorem C17_skipped_silently : forall default c, lint_verdict default (Crashed c) = None /\ pre_verdict default (Crashed c) = None.
Proof. exact crash_skipped. Qed.
Theorem C17_message_is_text : forall default s, lint_verdict default (Rejected (Some (VStr s))) = Some s.
Proof. exact rejected_message_text. Qed.
Theorem C17_default_text : forall default, lint_verdict default (Rejected None) = Some default /\ pre_verdict default (Rejected None) = Some default.
Proof. exact rejected_default_text. Qed.
Theorem C17_pre_and_post_rules_agree : forall default o, (o = Accepted \/ plain_rejection o \/ exists c, o = Crashed c) ->
  (lint_verdict default o = None <-> pre_verdict default o = None).
Proof. exact rules_agree. Qed.
Print Assumptions C17_verdict_iff_rejected.
Print Assumptions C17_pre_and_post_rules_agree.
Theorem C17_structured_errors_refuted :
  lint_verdict "post contract error" (Rejected (Some (VDict [("x", VStr "must be positive")]))) = None.
Proof. exact structured_errors_not_reported. Qed.
