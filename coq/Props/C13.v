(* Props/C13.v -- property theorems for C13 (independence from interleaving). Statements only; proofs in Thm/C13.
   Generators: every iteration of the wrapper loop regenerated from _run_iter hands the switch and the streams back as found,
   so at every point where control is at the consumer (no contracted body executing) the globals are original, for every
   interleaving. Coroutines: REFUTED on the current tree (a has() patch spans the awaits of the body). Threads: not modelled. *)
From Coq Require Import List ZArith Bool String.
Import ListNotations.
Require Import Base Prog Sig Interp InterpFacts Model Validators HasPatcher Contracts Scenario Show ScnSwitch Loops PatchFacts PatchBracket FrameCore Post Transparent IterStep.
Open Scope string_scope.

Theorem C13_generator_iteration_yields : forall ftab lf c n e w v w2 w3,
  debug (wst w) = true ->
  interp ftab n (gen_next (RunIter.l_generator e)) (patch_w c w) = Done (inl v) w2 -> inv_rel (wst (patch_w c w)) (wst w2) ->
  run_posts ftab n c (RunIter.l_args e) (RunIter.l_kwargs e) v (dbg false (unpatch_w c w2)) = Done (inl tt) w3 ->
  inv_rel (wst (dbg false (unpatch_w c w2))) (wst w3) ->
  exists K, interp ftab n (RunIter.loop_tail0 lf c e) w = Susp v K (dbg true w3) /\ inv_rel (wst w) (wst (dbg true w3)).
Proof. exact iteration_yields. Qed.
Print Assumptions C13_generator_iteration_yields.
Theorem C13_generator_iteration_rejects : forall ftab lf c n e w v w2 x w3,
  debug (wst w) = true ->
  interp ftab n (gen_next (RunIter.l_generator e)) (patch_w c w) = Done (inl v) w2 -> inv_rel (wst (patch_w c w)) (wst w2) ->
  run_posts ftab n c (RunIter.l_args e) (RunIter.l_kwargs e) v (dbg false (unpatch_w c w2)) = Done (inr x) w3 ->
  inv_rel (wst (dbg false (unpatch_w c w2))) (wst w3) ->
  interp ftab n (RunIter.loop_tail0 lf c e) w = Done (inr x) (dbg true w3) /\ inv_rel (wst w) (wst (dbg true w3)).
Proof. exact iteration_rejects. Qed.
Print Assumptions C13_generator_iteration_rejects.

(* coroutines: t0 = has() coroutine that awaits once; t1 = has('stdout') coroutine that prints.
   Alone, t1 prints and returns 2. Interleaved (t0 suspended inside its patched region), t1's print is blocked. *)
Definition csig : sig := [].
Definition t0 : sfun := {| sf_name := "t0"; sf_kind := KAsync; sf_sig := csig; sf_stack := [CHas 1 [] VNone None]; sf_body := [BAwait; BReturn (EConst (VInt 1))] |}.
Definition t1 : sfun := {| sf_name := "t1"; sf_kind := KAsync; sf_sig := csig; sf_stack := [CHas 2 ["stdout"] VNone None]; sf_body := [BEffect KOut; BReturn (EConst (VInt 2))] |}.
Definition t1_outcome (driver : list action) : option string :=
  match run_scenario {| sc_funs := [t0; t1]; sc_dispatch := []; sc_driver := driver |} with
  | Done (inl l) _ => match last l (ORet VNone, st0) with (o, s) => Some (Scenario.show_outcome (trace s) o) end
  | _ => None end.
Theorem C13_coroutines_refuted :
  t1_outcome [ACoNew 0 "t0" [] []; ACoNew 1 "t1" [] []; ANext 1] = Some "STOP i2" /\
  t1_outcome [ACoNew 0 "t0" [] []; ACoNew 1 "t1" [] []; ANext 0; ANext 1]
    = Some "X SilentContractError tag=- msg=<> params={} origin=- cause=- ctx=-".
Proof. split; vm_compute; reflexivity. Qed.
Print Assumptions C13_coroutines_refuted.

(* C13-F3: "whenever no contracted body is executing the standard streams are in their original state" -- REFUTED for two coroutines
   with separate has() patchers that overlap without nesting (A in, B in, A out, B out): B saved A's fake streams as "the
   originals" and puts them back after A has restored the real ones. Nested (LIFO) and sequential schedules come out right. *)
Definition ta : sfun := {| sf_name := "ta"; sf_kind := KAsync; sf_sig := csig; sf_stack := [CHas 1 [] VNone None]; sf_body := [BAwait; BReturn (EConst (VInt 1))] |}.
Definition tb : sfun := {| sf_name := "tb"; sf_kind := KAsync; sf_sig := csig; sf_stack := [CHas 2 [] VNone None]; sf_body := [BAwait; BReturn (EConst (VInt 2))] |}.
Definition quiescent_after (driver : list action) : option bool :=
  match run_scenario {| sc_funs := [ta; tb]; sc_dispatch := []; sc_driver := driver |} with
  | Done (inl l) _ => Some (match globals (snd (last l (ORet VNone, st0))) with (true, Real, Real, Real) => true | _ => false end)
  | _ => None end.
Theorem C13_overlapping_patchers_refuted :
  quiescent_after [ACoNew 0 "ta" [] []; ACoNew 1 "tb" [] []; ANext 0; ANext 1; ANext 0; ANext 1] = Some false /\
  quiescent_after [ACoNew 0 "ta" [] []; ACoNew 1 "tb" [] []; ANext 0; ANext 1; ANext 1; ANext 0] = Some true /\
  quiescent_after [ACoNew 0 "ta" [] []; ACoNew 1 "tb" [] []; ANext 0; ANext 0; ANext 1; ANext 1] = Some true.
Proof. repeat split; vm_compute; reflexivity. Qed.
Print Assumptions C13_overlapping_patchers_refuted.
