(* Core/Base.v -- values, classes, exception objects and the process state of the runtime model (DealSem).
   Hand-written; nothing here describes /repo: it is the vocabulary the generated definitions are written in. *)
From Coq Require Import List ZArith Bool String.
Import ListNotations.
Open Scope string_scope.

(* ---------- values ---------- *)
Inductive value :=
| VInt (z : Z) | VStr (s : string) | VNone | VBool (b : bool)
| VTuple (l : list value) | VDict (l : list (string * value))
| VEmpty                      (* inspect._empty *)
| VObj (n : nat)              (* an opaque object with identity n *)
| VGen (h : nat)              (* generator / coroutine handle *)
| VCls (c : string).

Fixpoint value_eqb (a b : value) {struct a} : bool :=
  match a, b with
  | VInt x, VInt y => Z.eqb x y
  | VStr x, VStr y => String.eqb x y
  | VNone, VNone => true
  | VBool x, VBool y => Bool.eqb x y
  | VTuple x, VTuple y =>
      (fix go (l1 l2 : list value) : bool :=
         match l1, l2 with
         | [], [] => true
         | u :: l1', v :: l2' => value_eqb u v && go l1' l2'
         | _, _ => false end) x y
  | VDict x, VDict y =>
      (fix go (l1 l2 : list (string * value)) : bool :=
         match l1, l2 with
         | [], [] => true
         | (k1, u) :: l1', (k2, v) :: l2' => String.eqb k1 k2 && value_eqb u v && go l1' l2'
         | _, _ => false end) x y
  | VEmpty, VEmpty => true
  | VObj x, VObj y => Nat.eqb x y
  | VGen x, VGen y => Nat.eqb x y
  | VCls x, VCls y => String.eqb x y
  | _, _ => false
  end.

(* Python truthiness of the values a validator may return *)
Definition truthy (v : value) : bool :=
  match v with
  | VInt z => negb (Z.eqb z 0) | VStr s => negb (String.eqb s "") | VNone => false | VBool b => b
  | VTuple l => match l with [] => false | _ => true end
  | VDict l => match l with [] => false | _ => true end
  | VEmpty | VObj _ | VGen _ | VCls _ => true
  end.

Definition pargs := list value.
Definition pkwargs := list (string * value).
Fixpoint lookup {X} (n : string) (l : list (string * X)) : option X :=
  match l with [] => None | (k, v) :: t => if String.eqb k n then Some v else lookup n t end.
Fixpoint upd {X} (b : list (string * X)) (n : string) (v : X) : list (string * X) :=
  match b with
  | [] => [(n, v)]
  | (k, x) :: t => if String.eqb k n then (k, v) :: t else (k, x) :: upd t n v
  end.
Fixpoint remove_key {X} (n : string) (b : list (string * X)) : list (string * X) :=
  match b with
  | [] => []
  | (k, x) :: t => if String.eqb k n then remove_key n t else (k, x) :: remove_key n t
  end.
(* dict(kwargs, name=v) / d.update({name: v}) *)
Definition kwargs_with (k : pkwargs) (n : string) (v : value) : pkwargs := upd k n v.
Definition dict_update {X} (a b : list (string * X)) : list (string * X) := fold_left (fun acc kv => upd acc (fst kv) (snd kv)) b a.

(* ---------- classes: self-describing (name + the names of all proper ancestors, i.e. mro()[1:]) ---------- *)
Record cls := { c_name : string; c_mro : list string }.
Definition cls_is (c : cls) (n : string) : bool := String.eqb (c_name c) n.
Definition cls_eqb (a b : cls) : bool := String.eqb (c_name a) (c_name b).
Definition subclass_of (c : cls) (n : string) : bool := String.eqb (c_name c) n || existsb (String.eqb n) (c_mro c).
Definition issubclass (c d : cls) : bool := subclass_of c (c_name d).

Definition mk_cls (n : string) (mro : list string) : cls := {| c_name := n; c_mro := mro |}.
Definition BaseExceptionC := mk_cls "BaseException" ["object"].
Definition ExceptionC := mk_cls "Exception" ["BaseException"; "object"].
Definition under_exception (n : string) (extra : list string) : cls := mk_cls n (extra ++ ["Exception"; "BaseException"; "object"])%list.
Definition AssertionErrorC := under_exception "AssertionError" [].
Definition TypeErrorC := under_exception "TypeError" [].
Definition KeyErrorC := under_exception "KeyError" ["LookupError"].
Definition RuntimeErrorC := under_exception "RuntimeError" [].
Definition StopIterationC := under_exception "StopIteration" [].
Definition GeneratorExitC := mk_cls "GeneratorExit" ["BaseException"; "object"].
Definition ContractErrorC := under_exception "ContractError" ["AssertionError"].
Definition deal_err (n : string) : cls := under_exception n ["ContractError"; "AssertionError"].
Definition marker_err (n : string) : cls := under_exception n ["MarkerError"; "ContractError"; "AssertionError"].

(* ---------- exception objects ---------- *)
Definition fid := string.       (* a function of the scenario, by name *)
Definition vid := nat.          (* a validator / contract object, by identity *)
Record dealinfo := { d_message : string; d_has_errors : bool; d_params : list (string * value);
                     d_origin : option fid; d_validator : option vid }.
Record exn := { e_cls : cls; e_id : nat;                 (* identity: two exn records with equal e_id are the same object *)
                e_args : list value;
                e_cause : option nat; e_ctx : option nat; (* identities of __cause__ / __context__ *)
                e_deal : option dealinfo }.
Definition mk_exn (c : cls) (args : list value) : exn :=
  {| e_cls := c; e_id := 0; e_args := args; e_cause := None; e_ctx := None; e_deal := None |}.
Definition with_id (e : exn) (n : nat) : exn :=
  {| e_cls := e_cls e; e_id := n; e_args := e_args e; e_cause := e_cause e; e_ctx := e_ctx e; e_deal := e_deal e |}.
Definition with_cause (e : exn) (c : option nat) : exn :=
  {| e_cls := e_cls e; e_id := e_id e; e_args := e_args e; e_cause := c; e_ctx := e_ctx e; e_deal := e_deal e |}.
Definition with_ctx (e : exn) (c : option nat) : exn :=
  {| e_cls := e_cls e; e_id := e_id e; e_args := e_args e; e_cause := e_cause e; e_ctx := c; e_deal := e_deal e |}.
Definition isinstance (e : exn) (n : string) : bool := subclass_of (e_cls e) n.
Definition type_of (e : exn) : cls := e_cls e.
Definition same_exn (a b : exn) : bool := Nat.eqb (e_id a) (e_id b).

(* `except` clause tests used by deal's source *)
Definition H_ContractError (e : exn) := isinstance e "ContractError".
Definition H_Exception (e : exn) := isinstance e "Exception".
Definition H_StopIteration (e : exn) := isinstance e "StopIteration".
Definition H_PreContractError (e : exn) := isinstance e "PreContractError".
Definition H_TypeError (e : exn) := isinstance e "TypeError".

(* `exception=` argument of a contract: a class or an instance *)
Inductive excspec := EClass (c : cls) | EInst (c : cls) (args : list value).
Definition exc_is_instance (x : excspec) : bool := match x with EInst _ _ => true | EClass _ => false end.
Definition exc_class (x : excspec) : cls := match x with EInst c _ | EClass c => c end.
Definition exc_args (x : excspec) : list value := match x with EInst _ a => a | EClass _ => [] end.

(* ---------- process state ---------- *)
Definition pid := nat.          (* a HasPatcher object, by identity *)
Inductive stream := Real | Patched (owner : pid) (err : excspec).   (* PatchedStringIO / PatchedSocket carry what to raise *)
Definition is_real (s : stream) : bool := match s with Real => true | _ => false end.
Inductive effkind := KOut | KErr | KSock.
Inductive event :=
| EvBody (f : fid) (a : pargs) (k : pkwargs)      (* the undecorated function body started, with what it received *)
| EvValidator (v : vid) (received : value)         (* a raw validator was invoked, with what it received *)
| EvEffect (k : effkind)                           (* an allowed effect reached the real stream / socket *)
| EvBlocked (k : effkind) (owner : pid)            (* an effect hit a patched stream *)
| EvForeign (tag : nat)                            (* a foreign decorator layer ran *)
| EvResume (h : nat)                               (* an inner generator was resumed *)
| EvBound (f : fid) (b : list (string * value))     (* the body of f started with this binding of its parameters *)
| EvRaised (tag : Z) (id : nat).                   (* user code created the exception object `id`, labelled tag *)

Record slot := { sv_sock : stream; sv_out : stream; sv_err : stream; sv_depth : nat }.   (* true_socket, true_stdout, true_stderr, _depth *)
Definition slot_sock s (x : slot) := {| sv_sock := s; sv_out := sv_out x; sv_err := sv_err x; sv_depth := sv_depth x |}.
Definition slot_out s (x : slot) := {| sv_sock := sv_sock x; sv_out := s; sv_err := sv_err x; sv_depth := sv_depth x |}.
Definition slot_err s (x : slot) := {| sv_sock := sv_sock x; sv_out := sv_out x; sv_err := s; sv_depth := sv_depth x |}.
Definition slot_depth n (x : slot) := {| sv_sock := sv_sock x; sv_out := sv_out x; sv_err := sv_err x; sv_depth := n |}.
Definition slot0 := {| sv_sock := Real; sv_out := Real; sv_err := Real; sv_depth := 0 |}.
Record st := { debug : bool; removed : bool;
               s_out : stream; s_err : stream; s_sock : stream;
               slots : list (pid * slot);
               trace : list event; next_id : nat }.
Definition st0 := {| debug := true; removed := false; s_out := Real; s_err := Real; s_sock := Real;
                     slots := []; trace := []; next_id := 1 |}.

Definition set_debug b (w : st) := {| debug := b; removed := removed w; s_out := s_out w; s_err := s_err w; s_sock := s_sock w; slots := slots w; trace := trace w; next_id := next_id w |}.
Definition set_removed b (w : st) := {| debug := debug w; removed := b; s_out := s_out w; s_err := s_err w; s_sock := s_sock w; slots := slots w; trace := trace w; next_id := next_id w |}.
Definition set_out s (w : st) := {| debug := debug w; removed := removed w; s_out := s; s_err := s_err w; s_sock := s_sock w; slots := slots w; trace := trace w; next_id := next_id w |}.
Definition set_err s (w : st) := {| debug := debug w; removed := removed w; s_out := s_out w; s_err := s; s_sock := s_sock w; slots := slots w; trace := trace w; next_id := next_id w |}.
Definition set_sock s (w : st) := {| debug := debug w; removed := removed w; s_out := s_out w; s_err := s_err w; s_sock := s; slots := slots w; trace := trace w; next_id := next_id w |}.
Definition set_slots l (w : st) := {| debug := debug w; removed := removed w; s_out := s_out w; s_err := s_err w; s_sock := s_sock w; slots := l; trace := trace w; next_id := next_id w |}.
Definition emit ev (w : st) := {| debug := debug w; removed := removed w; s_out := s_out w; s_err := s_err w; s_sock := s_sock w; slots := slots w; trace := (trace w ++ [ev])%list; next_id := next_id w |}.
Definition bump (w : st) := {| debug := debug w; removed := removed w; s_out := s_out w; s_err := s_err w; s_sock := s_sock w; slots := slots w; trace := trace w; next_id := S (S (next_id w)) |}.

Fixpoint nlookup {X} (n : nat) (l : list (nat * X)) : option X :=
  match l with [] => None | (k, v) :: t => if Nat.eqb k n then Some v else nlookup n t end.
Fixpoint nupd {X} (l : list (nat * X)) (n : nat) (v : X) : list (nat * X) :=
  match l with
  | [] => [(n, v)]
  | (k, x) :: t => if Nat.eqb k n then (k, v) :: t else (k, x) :: nupd t n v
  end.
Definition get_slot (p : pid) (w : st) : slot := match nlookup p (slots w) with Some s => s | None => slot0 end.
Definition put_slot (p : pid) (s : slot) (w : st) : st := set_slots (nupd (slots w) p s) w.

(* the part of the state that C08 / C13 speak about *)
Definition globals (w : st) := (debug w, s_out w, s_err w, s_sock w).
