(* Core/Prog.v -- programs of the runtime model: a freer monad with exceptions, atomic state effects,
   calls into the function table and `yield`; plus the statement combinators the translator emits. *)
From Coq Require Import List ZArith Bool String.
Import ListNotations.
Require Import Base.
Set Implicit Arguments.

Inductive resume := Send (v : value) | Throw (e : exn) | Close.
Inductive gen_res := GYield (v : value) | GStop (v : value) | GRaise (e : exn).

Inductive eff : Type -> Type :=
| Simple {X} (f : st -> X * st) : eff X                          (* one atomic step on the process state *)
| Call (f : fid) (a : pargs) (k : pkwargs) : eff (value + exn)    (* call the *decorated* callable named f *)
| CallBody (f : fid) (a : pargs) (k : pkwargs) : eff (value + exn)(* call the original function (self.func) *)
| GenResume (h : nat) (r : resume) : eff gen_res                  (* next / send / throw / close on a live generator *)
| Spawn (f : fid) (a : pargs) (k : pkwargs) : eff value.          (* create a coroutine object for f(...) without starting it *)                 (* next / send / throw / close on a live generator *)

Inductive prog (A : Type) : Type :=
| Ret (a : A)
| Raise (e : exn)
| Vis {X} (ev : eff X) (k : X -> prog A)
| Yield (v : value) (k : resume -> prog A).
Arguments Raise {A} e.
Arguments Yield {A} v k.

Fixpoint bind {A B} (p : prog A) (f : A -> prog B) : prog B :=
  match p with
  | Ret a => f a
  | Raise e => Raise e
  | Vis ev k => Vis ev (fun x => bind (k x) f)
  | Yield v k => Yield v (fun r => bind (k r) f)
  end.
Notation "x <- p ;; q" := (bind p (fun x => q)) (at level 61, p at next level, right associativity).
Notation "p ;;; q" := (bind p (fun _ => q)) (at level 61, right associativity).
Definition trigger {X} (ev : eff X) : prog X := Vis ev (fun x => Ret x).
Definition fmap {A B} (f : A -> B) (p : prog A) : prog B := x <- p ;; Ret (f x).
Definition lift_res {A} (r : A + exn) : prog A := match r with inl a => Ret a | inr e => Raise e end.
Definition act {X} (f : st -> X * st) : prog X := trigger (Simple f).
Definition get {X} (f : st -> X) : prog X := act (fun w => (f w, w)).
Definition modify (f : st -> st) : prog unit := act (fun w => (tt, f w)).

(* exceptions as values *)
Fixpoint catch {A} (p : prog A) : prog (A + exn) :=
  match p with
  | Ret a => Ret (inl a)
  | Raise e => Ret (inr e)
  | Vis ev k => Vis ev (fun x => catch (k x))
  | Yield v k => Yield v (fun r => catch (k r))
  end.

(* try: p finally: q *)
Fixpoint try_finally {A} (p : prog A) (q : prog unit) : prog A :=
  match p with
  | Ret a => q ;;; Ret a
  | Raise e => q ;;; Raise e
  | Vis ev k => Vis ev (fun x => try_finally (k x) q)
  | Yield v k => Yield v (fun r => try_finally (k r) q)
  end.
(* try: p except: h   -- h returns None when no clause matches *)
Fixpoint try_except {A} (p : prog A) (h : exn -> option (prog A)) : prog A :=
  match p with
  | Ret a => Ret a
  | Raise e => match h e with Some q => q | None => Raise e end
  | Vis ev k => Vis ev (fun x => try_except (k x) h)
  | Yield v k => Yield v (fun r => try_except (k r) h)
  end.
(* code running inside `except ... as cur`: an exception raised there that is not cur itself gets
   __context__ = cur (Python's implicit chaining), unless it already carries a context *)
Definition chain_ctx (cur e : exn) : exn :=
  if same_exn e cur then e
  else match e_ctx e with Some _ => e | None => with_ctx e (Some (e_id cur)) end.
Fixpoint in_handler {A} (cur : exn) (p : prog A) : prog A :=
  match p with
  | Ret a => Ret a
  | Raise e => Raise (chain_ctx cur e)
  | Vis ev k => Vis ev (fun x => in_handler cur (k x))
  | Yield v k => Yield v (fun r => in_handler cur (k r))
  end.
(* `raise e from c`: sets __cause__; the implicit context is added by in_handler *)
Definition raise_from {A} (e c : exn) : prog A := Raise (with_cause e (Some (e_id c))).

Fixpoint foreach {X} (l : list X) (f : X -> prog unit) : prog unit :=
  match l with [] => Ret tt | x :: xs => f x ;;; foreach xs f end.

(* fresh identity for a newly constructed exception object *)
Definition fresh_exn (e : exn) : prog exn := act (fun w => (with_id e (next_id w), bump w)).
Definition raise_new {A} (e : exn) : prog A := x <- fresh_exn e ;; Raise x.
Definition log (ev : event) : prog unit := modify (emit ev).

(* ---------- statements ---------- *)
Inductive ctrl (R : Type) := CNormal | CReturn (v : R).
Arguments CNormal {R}.
Definition out_of_fuel : exn := mk_exn (mk_cls "<out-of-loop-fuel>" []) [].
Definition is_out_of_fuel (e : exn) := cls_is (e_cls e) "<out-of-loop-fuel>".

Section Stmt.
  Variable env : Type.
  Variable R : Type.     (* the type of `return` values of the function the statement belongs to *)
  Definition stmt := env -> prog (ctrl R * env).
  Definition s_skip : stmt := fun e => Ret (CNormal, e).
  Definition s_seq (a b : stmt) : stmt := fun e =>
    r <- a e ;; match fst r with CNormal => b (snd r) | CReturn v => Ret (CReturn v, snd r) end.
  Definition s_do (p : env -> prog unit) : stmt := fun e => p e ;;; Ret (CNormal, e).
  Definition s_assign {X} (set : X -> env -> env) (p : env -> prog X) : stmt := fun e =>
    x <- p e ;; Ret (CNormal, set x e).
  Definition s_return (p : env -> prog R) : stmt := fun e => v <- p e ;; Ret (CReturn v, e).
  Definition s_raise (p : env -> prog exn) : stmt := fun e => x <- p e ;; Raise x.
  Definition s_raise_exn (x : exn) : stmt := fun _ => Raise x.
  Definition s_if (c : env -> prog bool) (a b : stmt) : stmt := fun e => t <- c e ;; if t then a e else b e.
  Fixpoint s_for_list {X} (set : X -> env -> env) (l : list X) (body : stmt) : stmt := fun e =>
    match l with
    | [] => Ret (CNormal, e)
    | x :: xs => r <- body (set x e) ;;
                 match fst r with CNormal => s_for_list set xs body (snd r) | CReturn v => Ret (CReturn v, snd r) end
    end.
  Definition s_for {X} (set : X -> env -> env) (l : env -> list X) (body : stmt) : stmt :=
    fun e => s_for_list set (l e) body e.
  Fixpoint s_while_true (fuel : nat) (body : stmt) : stmt := fun e =>
    match fuel with
    | O => Raise out_of_fuel
    | S n => r <- body e ;;
             match fst r with CNormal => s_while_true n body (snd r) | CReturn v => Ret (CReturn v, snd r) end
    end.
  (* try: a finally: f  -- the finaliser runs on normal exit, on return and on an exception;
     a return / exception of the finaliser itself wins (Python) *)
  Definition s_finally (a f : stmt) : stmt := fun e =>
    r <- catch (a e) ;;
    match r with
    | inl (c, e1) => r2 <- f e1 ;; match fst r2 with CNormal => Ret (c, snd r2) | CReturn v => Ret (CReturn v, snd r2) end
    | inr ex => r2 <- in_handler ex (f e) ;; match fst r2 with CNormal => Raise ex | CReturn v => Ret (CReturn v, snd r2) end
    end.
  Definition handler := ((exn -> bool) * option (exn -> env -> env) * (exn -> stmt))%type.
  Fixpoint pick (hs : list handler) (ex : exn) (e : env) : option (prog (ctrl R * env)) :=
    match hs with
    | [] => None
    | (m, set, body) :: rest =>
      if m ex then Some (in_handler ex (body ex (match set with Some s => s ex e | None => e end)))
      else pick rest ex e
    end.
  Definition s_try (a : stmt) (hs : list handler) : stmt := fun e => try_except (a e) (fun ex => pick hs ex e).
  (* `yield v` as a statement / `x = yield v` *)
  Definition s_yield (p : env -> value) : stmt := fun e =>
    Yield (p e) (fun r => match r with
                          | Send _ => Ret (CNormal, e)
                          | Throw ex => Raise ex
                          | Close => Raise (mk_exn GeneratorExitC [])
                          end).
  Definition s_yield_assign (set : value -> env -> env) (p : env -> value) : stmt := fun e =>
    Yield (p e) (fun r => match r with
                          | Send v => Ret (CNormal, set v e)
                          | Throw ex => Raise ex
                          | Close => Raise (mk_exn GeneratorExitC [])
                          end).
End Stmt.
Arguments s_skip {env R}. Arguments s_raise_exn {env R}.
Arguments s_seq {env R}. Arguments s_do {env R}. Arguments s_assign {env R X}. Arguments s_return {env R}.
Arguments s_raise {env R}. Arguments s_if {env R}. Arguments s_for_list {env R X}. Arguments s_for {env R X}.
Arguments s_while_true {env R}. Arguments s_finally {env R}. Arguments s_try {env R}. Arguments pick {env R}.
Arguments s_yield {env R}. Arguments s_yield_assign {env R}.

Definition ret_of {E} (r : ctrl value * E) : value := match fst r with CReturn v => v | CNormal => VNone end.
Definition ret_or {R E} (d : R) (r : ctrl R * E) : R := match fst r with CReturn v => v | CNormal => d end.
(* run a function body: the value of `return`, or d when control falls off the end *)
Definition run_body {env R} (s : stmt env R) (e : env) (d : R) : prog R := r <- s e ;; Ret (ret_or d r).
