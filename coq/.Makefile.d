Core/Base.vo Core/Base.glob Core/Base.v.beautified Core/Base.required_vo: Core/Base.v 
Core/Base.vio: Core/Base.v 
Core/Base.vos Core/Base.vok Core/Base.required_vos: Core/Base.v 
Core/Prog.vo Core/Prog.glob Core/Prog.v.beautified Core/Prog.required_vo: Core/Prog.v Core/Base.vo
Core/Prog.vio: Core/Prog.v Core/Base.vio
Core/Prog.vos Core/Prog.vok Core/Prog.required_vos: Core/Prog.v Core/Base.vos
Py/Sig.vo Py/Sig.glob Py/Sig.v.beautified Py/Sig.required_vo: Py/Sig.v Core/Base.vo
Py/Sig.vio: Py/Sig.v Core/Base.vio
Py/Sig.vos Py/Sig.vok Py/Sig.required_vos: Py/Sig.v Core/Base.vos
Py/Mro.vo Py/Mro.glob Py/Mro.v.beautified Py/Mro.required_vo: Py/Mro.v Core/Base.vo
Py/Mro.vio: Py/Mro.v Core/Base.vio
Py/Mro.vos Py/Mro.vok Py/Mro.required_vos: Py/Mro.v Core/Base.vos
Sem/Interp.vo Sem/Interp.glob Sem/Interp.v.beautified Sem/Interp.required_vo: Sem/Interp.v Core/Base.vo Core/Prog.vo
Sem/Interp.vio: Sem/Interp.v Core/Base.vio Core/Prog.vio
Sem/Interp.vos Sem/Interp.vok Sem/Interp.required_vos: Sem/Interp.v Core/Base.vos Core/Prog.vos
Sem/Model.vo Sem/Model.glob Sem/Model.v.beautified Sem/Model.required_vo: Sem/Model.v Core/Base.vo Core/Prog.vo Py/Sig.vo
Sem/Model.vio: Sem/Model.v Core/Base.vio Core/Prog.vio Py/Sig.vio
Sem/Model.vos Sem/Model.vok Sem/Model.required_vos: Sem/Model.v Core/Base.vos Core/Prog.vos Py/Sig.vos
Sem/InterpFacts.vo Sem/InterpFacts.glob Sem/InterpFacts.v.beautified Sem/InterpFacts.required_vo: Sem/InterpFacts.v Core/Base.vo Core/Prog.vo Sem/Interp.vo
Sem/InterpFacts.vio: Sem/InterpFacts.v Core/Base.vio Core/Prog.vio Sem/Interp.vio
Sem/InterpFacts.vos Sem/InterpFacts.vok Sem/InterpFacts.required_vos: Sem/InterpFacts.v Core/Base.vos Core/Prog.vos Sem/Interp.vos
Sem/StmtFacts.vo Sem/StmtFacts.glob Sem/StmtFacts.v.beautified Sem/StmtFacts.required_vo: Sem/StmtFacts.v Core/Base.vo Core/Prog.vo Sem/Interp.vo Sem/InterpFacts.vo
Sem/StmtFacts.vio: Sem/StmtFacts.v Core/Base.vio Core/Prog.vio Sem/Interp.vio Sem/InterpFacts.vio
Sem/StmtFacts.vos Sem/StmtFacts.vok Sem/StmtFacts.required_vos: Sem/StmtFacts.v Core/Base.vos Core/Prog.vos Sem/Interp.vos Sem/InterpFacts.vos
Sem/Show.vo Sem/Show.glob Sem/Show.v.beautified Sem/Show.required_vo: Sem/Show.v Core/Base.vo
Sem/Show.vio: Sem/Show.v Core/Base.vio
Sem/Show.vos Sem/Show.vok Sem/Show.required_vos: Sem/Show.v Core/Base.vos
Gen/State.vo Gen/State.glob Gen/State.v.beautified Gen/State.required_vo: Gen/State.v Core/Base.vo Core/Prog.vo
Gen/State.vio: Gen/State.v Core/Base.vio Core/Prog.vio
Gen/State.vos Gen/State.vok Gen/State.required_vos: Gen/State.v Core/Base.vos Core/Prog.vos
Gen/Validators.vo Gen/Validators.glob Gen/Validators.v.beautified Gen/Validators.required_vo: Gen/Validators.v Core/Base.vo Core/Prog.vo Py/Sig.vo Sem/Model.vo
Gen/Validators.vio: Gen/Validators.v Core/Base.vio Core/Prog.vio Py/Sig.vio Sem/Model.vio
Gen/Validators.vos Gen/Validators.vok Gen/Validators.required_vos: Gen/Validators.v Core/Base.vos Core/Prog.vos Py/Sig.vos Sem/Model.vos
Gen/HasPatcher.vo Gen/HasPatcher.glob Gen/HasPatcher.v.beautified Gen/HasPatcher.required_vo: Gen/HasPatcher.v Core/Base.vo Core/Prog.vo Py/Sig.vo Sem/Model.vo
Gen/HasPatcher.vio: Gen/HasPatcher.v Core/Base.vio Core/Prog.vio Py/Sig.vio Sem/Model.vio
Gen/HasPatcher.vos Gen/HasPatcher.vok Gen/HasPatcher.required_vos: Gen/HasPatcher.v Core/Base.vos Core/Prog.vos Py/Sig.vos Sem/Model.vos
Gen/Contracts.vo Gen/Contracts.glob Gen/Contracts.v.beautified Gen/Contracts.required_vo: Gen/Contracts.v Core/Base.vo Core/Prog.vo Py/Sig.vo Sem/Interp.vo Sem/Model.vo Gen/Validators.vo Gen/HasPatcher.vo
Gen/Contracts.vio: Gen/Contracts.v Core/Base.vio Core/Prog.vio Py/Sig.vio Sem/Interp.vio Sem/Model.vio Gen/Validators.vio Gen/HasPatcher.vio
Gen/Contracts.vos Gen/Contracts.vok Gen/Contracts.required_vos: Gen/Contracts.v Core/Base.vos Core/Prog.vos Py/Sig.vos Sem/Interp.vos Sem/Model.vos Gen/Validators.vos Gen/HasPatcher.vos
Gen/Rules.vo Gen/Rules.glob Gen/Rules.v.beautified Gen/Rules.required_vo: Gen/Rules.v Core/Base.vo Sem/Model.vo Gen/HasPatcher.vo
Gen/Rules.vio: Gen/Rules.v Core/Base.vio Sem/Model.vio Gen/HasPatcher.vio
Gen/Rules.vos Gen/Rules.vok Gen/Rules.required_vos: Gen/Rules.v Core/Base.vos Sem/Model.vos Gen/HasPatcher.vos
Gen/Decorators.vo Gen/Decorators.glob Gen/Decorators.v.beautified Gen/Decorators.required_vo: Gen/Decorators.v 
Gen/Decorators.vio: Gen/Decorators.v 
Gen/Decorators.vos Gen/Decorators.vok Gen/Decorators.required_vos: Gen/Decorators.v 
Gen/Dispatch.vo Gen/Dispatch.glob Gen/Dispatch.v.beautified Gen/Dispatch.required_vo: Gen/Dispatch.v Core/Base.vo Core/Prog.vo Py/Sig.vo Sem/Interp.vo Sem/Model.vo
Gen/Dispatch.vio: Gen/Dispatch.v Core/Base.vio Core/Prog.vio Py/Sig.vio Sem/Interp.vio Sem/Model.vio
Gen/Dispatch.vos Gen/Dispatch.vok Gen/Dispatch.required_vos: Gen/Dispatch.v Core/Base.vos Core/Prog.vos Py/Sig.vos Sem/Interp.vos Sem/Model.vos
Gen/ObjPin.vo Gen/ObjPin.glob Gen/ObjPin.v.beautified Gen/ObjPin.required_vo: Gen/ObjPin.v 
Gen/ObjPin.vio: Gen/ObjPin.v 
Gen/ObjPin.vos Gen/ObjPin.vok Gen/ObjPin.required_vos: Gen/ObjPin.v 
Gen/Testing.vo Gen/Testing.glob Gen/Testing.v.beautified Gen/Testing.required_vo: Gen/Testing.v Core/Base.vo Core/Prog.vo Py/Sig.vo Sem/Interp.vo Sem/Model.vo Gen/Validators.vo
Gen/Testing.vio: Gen/Testing.v Core/Base.vio Core/Prog.vio Py/Sig.vio Sem/Interp.vio Sem/Model.vio Gen/Validators.vio
Gen/Testing.vos Gen/Testing.vok Gen/Testing.required_vos: Gen/Testing.v Core/Base.vos Core/Prog.vos Py/Sig.vos Sem/Interp.vos Sem/Model.vos Gen/Validators.vos
Gen/Transformer.vo Gen/Transformer.glob Gen/Transformer.v.beautified Gen/Transformer.required_vo: Gen/Transformer.v 
Gen/Transformer.vio: Gen/Transformer.v 
Gen/Transformer.vos Gen/Transformer.vok Gen/Transformer.required_vos: Gen/Transformer.v 
Gen/LintPin.vo Gen/LintPin.glob Gen/LintPin.v.beautified Gen/LintPin.required_vo: Gen/LintPin.v 
Gen/LintPin.vio: Gen/LintPin.v 
Gen/LintPin.vos Gen/LintPin.vok Gen/LintPin.required_vos: Gen/LintPin.v 
Gen/DriverPin.vo Gen/DriverPin.glob Gen/DriverPin.v.beautified Gen/DriverPin.required_vo: Gen/DriverPin.v 
Gen/DriverPin.vio: Gen/DriverPin.v 
Gen/DriverPin.vos Gen/DriverPin.vok Gen/DriverPin.required_vos: Gen/DriverPin.v 
Gen/ExecPin.vo Gen/ExecPin.glob Gen/ExecPin.v.beautified Gen/ExecPin.required_vo: Gen/ExecPin.v 
Gen/ExecPin.vio: Gen/ExecPin.v 
Gen/ExecPin.vos Gen/ExecPin.vok Gen/ExecPin.required_vos: Gen/ExecPin.v 
Sem/Scenario.vo Sem/Scenario.glob Sem/Scenario.v.beautified Sem/Scenario.required_vo: Sem/Scenario.v Core/Base.vo Core/Prog.vo Py/Sig.vo Sem/Interp.vo Sem/InterpFacts.vo Sem/Model.vo Sem/Show.vo Gen/State.vo Sem/ScnSwitch.vo Gen/Validators.vo Gen/HasPatcher.vo Gen/Contracts.vo Gen/Dispatch.vo
Sem/Scenario.vio: Sem/Scenario.v Core/Base.vio Core/Prog.vio Py/Sig.vio Sem/Interp.vio Sem/InterpFacts.vio Sem/Model.vio Sem/Show.vio Gen/State.vio Sem/ScnSwitch.vio Gen/Validators.vio Gen/HasPatcher.vio Gen/Contracts.vio Gen/Dispatch.vio
Sem/Scenario.vos Sem/Scenario.vok Sem/Scenario.required_vos: Sem/Scenario.v Core/Base.vos Core/Prog.vos Py/Sig.vos Sem/Interp.vos Sem/InterpFacts.vos Sem/Model.vos Sem/Show.vos Gen/State.vos Sem/ScnSwitch.vos Gen/Validators.vos Gen/HasPatcher.vos Gen/Contracts.vos Gen/Dispatch.vos
Sem/ScnMarkers.vo Sem/ScnMarkers.glob Sem/ScnMarkers.v.beautified Sem/ScnMarkers.required_vo: Sem/ScnMarkers.v Core/Base.vo Sem/Model.vo Sem/Show.vo Gen/HasPatcher.vo Gen/Rules.vo
Sem/ScnMarkers.vio: Sem/ScnMarkers.v Core/Base.vio Sem/Model.vio Sem/Show.vio Gen/HasPatcher.vio Gen/Rules.vio
Sem/ScnMarkers.vos Sem/ScnMarkers.vok Sem/ScnMarkers.required_vos: Sem/ScnMarkers.v Core/Base.vos Sem/Model.vos Sem/Show.vos Gen/HasPatcher.vos Gen/Rules.vos
Sem/ObjModel.vo Sem/ObjModel.glob Sem/ObjModel.v.beautified Sem/ObjModel.required_vo: Sem/ObjModel.v Core/Base.vo Core/Prog.vo Py/Sig.vo Sem/Interp.vo Sem/Model.vo
Sem/ObjModel.vio: Sem/ObjModel.v Core/Base.vio Core/Prog.vio Py/Sig.vio Sem/Interp.vio Sem/Model.vio
Sem/ObjModel.vos Sem/ObjModel.vok Sem/ObjModel.required_vos: Sem/ObjModel.v Core/Base.vos Core/Prog.vos Py/Sig.vos Sem/Interp.vos Sem/Model.vos
Sem/ScnObj.vo Sem/ScnObj.glob Sem/ScnObj.v.beautified Sem/ScnObj.required_vo: Sem/ScnObj.v Core/Base.vo Core/Prog.vo Py/Sig.vo Sem/Interp.vo Sem/InterpFacts.vo Sem/Model.vo Sem/Show.vo Gen/State.vo Sem/ScnSwitch.vo Gen/Validators.vo Gen/HasPatcher.vo Gen/Contracts.vo Gen/Dispatch.vo Sem/Scenario.vo Sem/ObjModel.vo
Sem/ScnObj.vio: Sem/ScnObj.v Core/Base.vio Core/Prog.vio Py/Sig.vio Sem/Interp.vio Sem/InterpFacts.vio Sem/Model.vio Sem/Show.vio Gen/State.vio Sem/ScnSwitch.vio Gen/Validators.vio Gen/HasPatcher.vio Gen/Contracts.vio Gen/Dispatch.vio Sem/Scenario.vio Sem/ObjModel.vio
Sem/ScnObj.vos Sem/ScnObj.vok Sem/ScnObj.required_vos: Sem/ScnObj.v Core/Base.vos Core/Prog.vos Py/Sig.vos Sem/Interp.vos Sem/InterpFacts.vos Sem/Model.vos Sem/Show.vos Gen/State.vos Sem/ScnSwitch.vos Gen/Validators.vos Gen/HasPatcher.vos Gen/Contracts.vos Gen/Dispatch.vos Sem/Scenario.vos Sem/ObjModel.vos
Sem/ClassModel.vo Sem/ClassModel.glob Sem/ClassModel.v.beautified Sem/ClassModel.required_vo: Sem/ClassModel.v Core/Base.vo Py/Mro.vo Sem/Show.vo
Sem/ClassModel.vio: Sem/ClassModel.v Core/Base.vio Py/Mro.vio Sem/Show.vio
Sem/ClassModel.vos Sem/ClassModel.vok Sem/ClassModel.required_vos: Sem/ClassModel.v Core/Base.vos Py/Mro.vos Sem/Show.vos
Sem/InvModel.vo Sem/InvModel.glob Sem/InvModel.v.beautified Sem/InvModel.required_vo: Sem/InvModel.v Core/Base.vo Sem/Show.vo
Sem/InvModel.vio: Sem/InvModel.v Core/Base.vio Sem/Show.vio
Sem/InvModel.vos Sem/InvModel.vok Sem/InvModel.required_vos: Sem/InvModel.v Core/Base.vos Sem/Show.vos
Sem/ImportModel.vo Sem/ImportModel.glob Sem/ImportModel.v.beautified Sem/ImportModel.required_vo: Sem/ImportModel.v Core/Base.vo Sem/Show.vo Gen/HasPatcher.vo
Sem/ImportModel.vio: Sem/ImportModel.v Core/Base.vio Sem/Show.vio Gen/HasPatcher.vio
Sem/ImportModel.vos Sem/ImportModel.vok Sem/ImportModel.required_vos: Sem/ImportModel.v Core/Base.vos Sem/Show.vos Gen/HasPatcher.vos
Sem/DecorateModel.vo Sem/DecorateModel.glob Sem/DecorateModel.v.beautified Sem/DecorateModel.required_vo: Sem/DecorateModel.v Gen/Transformer.vo
Sem/DecorateModel.vio: Sem/DecorateModel.v Gen/Transformer.vio
Sem/DecorateModel.vos Sem/DecorateModel.vok Sem/DecorateModel.required_vos: Sem/DecorateModel.v Gen/Transformer.vos
Sem/LintModel.vo Sem/LintModel.glob Sem/LintModel.v.beautified Sem/LintModel.required_vo: Sem/LintModel.v Core/Base.vo Sem/Model.vo Gen/HasPatcher.vo Gen/Rules.vo
Sem/LintModel.vio: Sem/LintModel.v Core/Base.vio Sem/Model.vio Gen/HasPatcher.vio Gen/Rules.vio
Sem/LintModel.vos Sem/LintModel.vok Sem/LintModel.required_vos: Sem/LintModel.v Core/Base.vos Sem/Model.vos Gen/HasPatcher.vos Gen/Rules.vos
Sem/ScnLint.vo Sem/ScnLint.glob Sem/ScnLint.v.beautified Sem/ScnLint.required_vo: Sem/ScnLint.v Core/Base.vo Sem/Show.vo Sem/LintModel.vo
Sem/ScnLint.vio: Sem/ScnLint.v Core/Base.vio Sem/Show.vio Sem/LintModel.vio
Sem/ScnLint.vos Sem/ScnLint.vok Sem/ScnLint.required_vos: Sem/ScnLint.v Core/Base.vos Sem/Show.vos Sem/LintModel.vos
Sem/LintDriver.vo Sem/LintDriver.glob Sem/LintDriver.v.beautified Sem/LintDriver.required_vo: Sem/LintDriver.v Gen/DriverPin.vo
Sem/LintDriver.vio: Sem/LintDriver.v Gen/DriverPin.vio
Sem/LintDriver.vos Sem/LintDriver.vok Sem/LintDriver.required_vos: Sem/LintDriver.v Gen/DriverPin.vos
Sem/LintExec.vo Sem/LintExec.glob Sem/LintExec.v.beautified Sem/LintExec.required_vo: Sem/LintExec.v Core/Base.vo
Sem/LintExec.vio: Sem/LintExec.v Core/Base.vio
Sem/LintExec.vos Sem/LintExec.vok Sem/LintExec.required_vos: Sem/LintExec.v Core/Base.vos
Sem/ScnSwitch.vo Sem/ScnSwitch.glob Sem/ScnSwitch.v.beautified Sem/ScnSwitch.required_vo: Sem/ScnSwitch.v Core/Base.vo Core/Prog.vo Sem/Interp.vo Sem/Show.vo Gen/State.vo
Sem/ScnSwitch.vio: Sem/ScnSwitch.v Core/Base.vio Core/Prog.vio Sem/Interp.vio Sem/Show.vio Gen/State.vio
Sem/ScnSwitch.vos Sem/ScnSwitch.vok Sem/ScnSwitch.required_vos: Sem/ScnSwitch.v Core/Base.vos Core/Prog.vos Sem/Interp.vos Sem/Show.vos Gen/State.vos
Thm/C07/Switch.vo Thm/C07/Switch.glob Thm/C07/Switch.v.beautified Thm/C07/Switch.required_vo: Thm/C07/Switch.v Core/Base.vo Core/Prog.vo Sem/Interp.vo Sem/InterpFacts.vo Gen/State.vo Sem/ScnSwitch.vo
Thm/C07/Switch.vio: Thm/C07/Switch.v Core/Base.vio Core/Prog.vio Sem/Interp.vio Sem/InterpFacts.vio Gen/State.vio Sem/ScnSwitch.vio
Thm/C07/Switch.vos Thm/C07/Switch.vok Thm/C07/Switch.required_vos: Thm/C07/Switch.v Core/Base.vos Core/Prog.vos Sem/Interp.vos Sem/InterpFacts.vos Gen/State.vos Sem/ScnSwitch.vos
Thm/Common/Loops.vo Thm/Common/Loops.glob Thm/Common/Loops.v.beautified Thm/Common/Loops.required_vo: Thm/Common/Loops.v Core/Base.vo Core/Prog.vo Py/Sig.vo Sem/Interp.vo Sem/InterpFacts.vo Sem/StmtFacts.vo Sem/Model.vo Gen/Validators.vo
Thm/Common/Loops.vio: Thm/Common/Loops.v Core/Base.vio Core/Prog.vio Py/Sig.vio Sem/Interp.vio Sem/InterpFacts.vio Sem/StmtFacts.vio Sem/Model.vio Gen/Validators.vio
Thm/Common/Loops.vos Thm/Common/Loops.vok Thm/Common/Loops.required_vos: Thm/Common/Loops.v Core/Base.vos Core/Prog.vos Py/Sig.vos Sem/Interp.vos Sem/InterpFacts.vos Sem/StmtFacts.vos Sem/Model.vos Gen/Validators.vos
Thm/Common/PatchFacts.vo Thm/Common/PatchFacts.glob Thm/Common/PatchFacts.v.beautified Thm/Common/PatchFacts.required_vo: Thm/Common/PatchFacts.v Core/Base.vo Core/Prog.vo Py/Sig.vo Sem/Interp.vo Sem/InterpFacts.vo Sem/StmtFacts.vo Sem/Model.vo Gen/HasPatcher.vo
Thm/Common/PatchFacts.vio: Thm/Common/PatchFacts.v Core/Base.vio Core/Prog.vio Py/Sig.vio Sem/Interp.vio Sem/InterpFacts.vio Sem/StmtFacts.vio Sem/Model.vio Gen/HasPatcher.vio
Thm/Common/PatchFacts.vos Thm/Common/PatchFacts.vok Thm/Common/PatchFacts.required_vos: Thm/Common/PatchFacts.v Core/Base.vos Core/Prog.vos Py/Sig.vos Sem/Interp.vos Sem/InterpFacts.vos Sem/StmtFacts.vos Sem/Model.vos Gen/HasPatcher.vos
Thm/Common/PatchBracket.vo Thm/Common/PatchBracket.glob Thm/Common/PatchBracket.v.beautified Thm/Common/PatchBracket.required_vo: Thm/Common/PatchBracket.v Core/Base.vo Core/Prog.vo Py/Sig.vo Sem/Interp.vo Sem/InterpFacts.vo Sem/StmtFacts.vo Sem/Model.vo Gen/HasPatcher.vo Thm/Common/PatchFacts.vo
Thm/Common/PatchBracket.vio: Thm/Common/PatchBracket.v Core/Base.vio Core/Prog.vio Py/Sig.vio Sem/Interp.vio Sem/InterpFacts.vio Sem/StmtFacts.vio Sem/Model.vio Gen/HasPatcher.vio Thm/Common/PatchFacts.vio
Thm/Common/PatchBracket.vos Thm/Common/PatchBracket.vok Thm/Common/PatchBracket.required_vos: Thm/Common/PatchBracket.v Core/Base.vos Core/Prog.vos Py/Sig.vos Sem/Interp.vos Sem/InterpFacts.vos Sem/StmtFacts.vos Sem/Model.vos Gen/HasPatcher.vos Thm/Common/PatchFacts.vos
Thm/C01/Gate.vo Thm/C01/Gate.glob Thm/C01/Gate.v.beautified Thm/C01/Gate.required_vo: Thm/C01/Gate.v Core/Base.vo Core/Prog.vo Py/Sig.vo Sem/Interp.vo Sem/InterpFacts.vo Sem/StmtFacts.vo Sem/Model.vo Gen/Validators.vo Gen/HasPatcher.vo Gen/Contracts.vo Thm/Common/Loops.vo
Thm/C01/Gate.vio: Thm/C01/Gate.v Core/Base.vio Core/Prog.vio Py/Sig.vio Sem/Interp.vio Sem/InterpFacts.vio Sem/StmtFacts.vio Sem/Model.vio Gen/Validators.vio Gen/HasPatcher.vio Gen/Contracts.vio Thm/Common/Loops.vio
Thm/C01/Gate.vos Thm/C01/Gate.vok Thm/C01/Gate.required_vos: Thm/C01/Gate.v Core/Base.vos Core/Prog.vos Py/Sig.vos Sem/Interp.vos Sem/InterpFacts.vos Sem/StmtFacts.vos Sem/Model.vos Gen/Validators.vos Gen/HasPatcher.vos Gen/Contracts.vos Thm/Common/Loops.vos
Props/C01.vo Props/C01.glob Props/C01.v.beautified Props/C01.required_vo: Props/C01.v Core/Base.vo Core/Prog.vo Py/Sig.vo Sem/Interp.vo Sem/InterpFacts.vo Sem/Model.vo Gen/Validators.vo Gen/HasPatcher.vo Gen/Contracts.vo Sem/Scenario.vo Thm/Common/Loops.vo Thm/C01/Gate.vo
Props/C01.vio: Props/C01.v Core/Base.vio Core/Prog.vio Py/Sig.vio Sem/Interp.vio Sem/InterpFacts.vio Sem/Model.vio Gen/Validators.vio Gen/HasPatcher.vio Gen/Contracts.vio Sem/Scenario.vio Thm/Common/Loops.vio Thm/C01/Gate.vio
Props/C01.vos Props/C01.vok Props/C01.required_vos: Props/C01.v Core/Base.vos Core/Prog.vos Py/Sig.vos Sem/Interp.vos Sem/InterpFacts.vos Sem/Model.vos Gen/Validators.vos Gen/HasPatcher.vos Gen/Contracts.vos Sem/Scenario.vos Thm/Common/Loops.vos Thm/C01/Gate.vos
Thm/C02/Post.vo Thm/C02/Post.glob Thm/C02/Post.v.beautified Thm/C02/Post.required_vo: Thm/C02/Post.v Core/Base.vo Core/Prog.vo Py/Sig.vo Sem/Interp.vo Sem/InterpFacts.vo Sem/StmtFacts.vo Sem/Model.vo Gen/Validators.vo Gen/HasPatcher.vo Gen/Contracts.vo Thm/Common/Loops.vo
Thm/C02/Post.vio: Thm/C02/Post.v Core/Base.vio Core/Prog.vio Py/Sig.vio Sem/Interp.vio Sem/InterpFacts.vio Sem/StmtFacts.vio Sem/Model.vio Gen/Validators.vio Gen/HasPatcher.vio Gen/Contracts.vio Thm/Common/Loops.vio
Thm/C02/Post.vos Thm/C02/Post.vok Thm/C02/Post.required_vos: Thm/C02/Post.v Core/Base.vos Core/Prog.vos Py/Sig.vos Sem/Interp.vos Sem/InterpFacts.vos Sem/StmtFacts.vos Sem/Model.vos Gen/Validators.vos Gen/HasPatcher.vos Gen/Contracts.vos Thm/Common/Loops.vos
Props/C02.vo Props/C02.glob Props/C02.v.beautified Props/C02.required_vo: Props/C02.v Core/Base.vo Core/Prog.vo Py/Sig.vo Sem/Interp.vo Sem/InterpFacts.vo Sem/Model.vo Gen/Validators.vo Gen/HasPatcher.vo Gen/Contracts.vo Sem/Scenario.vo Thm/Common/Loops.vo Thm/C02/Post.vo
Props/C02.vio: Props/C02.v Core/Base.vio Core/Prog.vio Py/Sig.vio Sem/Interp.vio Sem/InterpFacts.vio Sem/Model.vio Gen/Validators.vio Gen/HasPatcher.vio Gen/Contracts.vio Sem/Scenario.vio Thm/Common/Loops.vio Thm/C02/Post.vio
Props/C02.vos Props/C02.vok Props/C02.required_vos: Props/C02.v Core/Base.vos Core/Prog.vos Py/Sig.vos Sem/Interp.vos Sem/InterpFacts.vos Sem/Model.vos Gen/Validators.vos Gen/HasPatcher.vos Gen/Contracts.vos Sem/Scenario.vos Thm/Common/Loops.vos Thm/C02/Post.vos
Thm/C03/Except.vo Thm/C03/Except.glob Thm/C03/Except.v.beautified Thm/C03/Except.required_vo: Thm/C03/Except.v Core/Base.vo Core/Prog.vo Py/Sig.vo Sem/Interp.vo Sem/InterpFacts.vo Sem/StmtFacts.vo Sem/Model.vo Gen/Validators.vo Gen/HasPatcher.vo Gen/Contracts.vo Thm/Common/Loops.vo Thm/Common/PatchFacts.vo
Thm/C03/Except.vio: Thm/C03/Except.v Core/Base.vio Core/Prog.vio Py/Sig.vio Sem/Interp.vio Sem/InterpFacts.vio Sem/StmtFacts.vio Sem/Model.vio Gen/Validators.vio Gen/HasPatcher.vio Gen/Contracts.vio Thm/Common/Loops.vio Thm/Common/PatchFacts.vio
Thm/C03/Except.vos Thm/C03/Except.vok Thm/C03/Except.required_vos: Thm/C03/Except.v Core/Base.vos Core/Prog.vos Py/Sig.vos Sem/Interp.vos Sem/InterpFacts.vos Sem/StmtFacts.vos Sem/Model.vos Gen/Validators.vos Gen/HasPatcher.vos Gen/Contracts.vos Thm/Common/Loops.vos Thm/Common/PatchFacts.vos
Props/C03.vo Props/C03.glob Props/C03.v.beautified Props/C03.required_vo: Props/C03.v Core/Base.vo Core/Prog.vo Py/Sig.vo Sem/Interp.vo Sem/InterpFacts.vo Sem/Model.vo Gen/Validators.vo Gen/HasPatcher.vo Gen/Contracts.vo Sem/Scenario.vo Thm/Common/Loops.vo Thm/Common/PatchFacts.vo Thm/C03/Except.vo
Props/C03.vio: Props/C03.v Core/Base.vio Core/Prog.vio Py/Sig.vio Sem/Interp.vio Sem/InterpFacts.vio Sem/Model.vio Gen/Validators.vio Gen/HasPatcher.vio Gen/Contracts.vio Sem/Scenario.vio Thm/Common/Loops.vio Thm/Common/PatchFacts.vio Thm/C03/Except.vio
Props/C03.vos Props/C03.vok Props/C03.required_vos: Props/C03.v Core/Base.vos Core/Prog.vos Py/Sig.vos Sem/Interp.vos Sem/InterpFacts.vos Sem/Model.vos Gen/Validators.vos Gen/HasPatcher.vos Gen/Contracts.vos Sem/Scenario.vos Thm/Common/Loops.vos Thm/Common/PatchFacts.vos Thm/C03/Except.vos
Thm/C08/FrameCore.vo Thm/C08/FrameCore.glob Thm/C08/FrameCore.v.beautified Thm/C08/FrameCore.required_vo: Thm/C08/FrameCore.v Core/Base.vo Core/Prog.vo Py/Sig.vo Sem/Interp.vo Sem/InterpFacts.vo Sem/StmtFacts.vo Sem/Model.vo Gen/HasPatcher.vo Thm/Common/PatchFacts.vo Thm/Common/PatchBracket.vo
Thm/C08/FrameCore.vio: Thm/C08/FrameCore.v Core/Base.vio Core/Prog.vio Py/Sig.vio Sem/Interp.vio Sem/InterpFacts.vio Sem/StmtFacts.vio Sem/Model.vio Gen/HasPatcher.vio Thm/Common/PatchFacts.vio Thm/Common/PatchBracket.vio
Thm/C08/FrameCore.vos Thm/C08/FrameCore.vok Thm/C08/FrameCore.required_vos: Thm/C08/FrameCore.v Core/Base.vos Core/Prog.vos Py/Sig.vos Sem/Interp.vos Sem/InterpFacts.vos Sem/StmtFacts.vos Sem/Model.vos Gen/HasPatcher.vos Thm/Common/PatchFacts.vos Thm/Common/PatchBracket.vos
Thm/C08/Frame.vo Thm/C08/Frame.glob Thm/C08/Frame.v.beautified Thm/C08/Frame.required_vo: Thm/C08/Frame.v Core/Base.vo Core/Prog.vo Py/Sig.vo Sem/Interp.vo Sem/InterpFacts.vo Sem/StmtFacts.vo Sem/Model.vo Gen/Validators.vo Gen/HasPatcher.vo Gen/Contracts.vo Thm/Common/PatchFacts.vo Thm/Common/PatchBracket.vo Thm/C08/FrameCore.vo
Thm/C08/Frame.vio: Thm/C08/Frame.v Core/Base.vio Core/Prog.vio Py/Sig.vio Sem/Interp.vio Sem/InterpFacts.vio Sem/StmtFacts.vio Sem/Model.vio Gen/Validators.vio Gen/HasPatcher.vio Gen/Contracts.vio Thm/Common/PatchFacts.vio Thm/Common/PatchBracket.vio Thm/C08/FrameCore.vio
Thm/C08/Frame.vos Thm/C08/Frame.vok Thm/C08/Frame.required_vos: Thm/C08/Frame.v Core/Base.vos Core/Prog.vos Py/Sig.vos Sem/Interp.vos Sem/InterpFacts.vos Sem/StmtFacts.vos Sem/Model.vos Gen/Validators.vos Gen/HasPatcher.vos Gen/Contracts.vos Thm/Common/PatchFacts.vos Thm/Common/PatchBracket.vos Thm/C08/FrameCore.vos
Props/C08.vo Props/C08.glob Props/C08.v.beautified Props/C08.required_vo: Props/C08.v Core/Base.vo Core/Prog.vo Py/Sig.vo Sem/Interp.vo Sem/InterpFacts.vo Sem/Model.vo Gen/Validators.vo Gen/HasPatcher.vo Gen/Contracts.vo Thm/Common/PatchFacts.vo Thm/Common/PatchBracket.vo Thm/C08/FrameCore.vo Thm/C08/Frame.vo
Props/C08.vio: Props/C08.v Core/Base.vio Core/Prog.vio Py/Sig.vio Sem/Interp.vio Sem/InterpFacts.vio Sem/Model.vio Gen/Validators.vio Gen/HasPatcher.vio Gen/Contracts.vio Thm/Common/PatchFacts.vio Thm/Common/PatchBracket.vio Thm/C08/FrameCore.vio Thm/C08/Frame.vio
Props/C08.vos Props/C08.vok Props/C08.required_vos: Props/C08.v Core/Base.vos Core/Prog.vos Py/Sig.vos Sem/Interp.vos Sem/InterpFacts.vos Sem/Model.vos Gen/Validators.vos Gen/HasPatcher.vos Gen/Contracts.vos Thm/Common/PatchFacts.vos Thm/Common/PatchBracket.vos Thm/C08/FrameCore.vos Thm/C08/Frame.vos
Thm/C04/Markers.vo Thm/C04/Markers.glob Thm/C04/Markers.v.beautified Thm/C04/Markers.required_vo: Thm/C04/Markers.v Core/Base.vo Core/Prog.vo Py/Sig.vo Sem/Interp.vo Sem/InterpFacts.vo Sem/Model.vo Gen/HasPatcher.vo Gen/Rules.vo Thm/Common/PatchFacts.vo Thm/Common/PatchBracket.vo
Thm/C04/Markers.vio: Thm/C04/Markers.v Core/Base.vio Core/Prog.vio Py/Sig.vio Sem/Interp.vio Sem/InterpFacts.vio Sem/Model.vio Gen/HasPatcher.vio Gen/Rules.vio Thm/Common/PatchFacts.vio Thm/Common/PatchBracket.vio
Thm/C04/Markers.vos Thm/C04/Markers.vok Thm/C04/Markers.required_vos: Thm/C04/Markers.v Core/Base.vos Core/Prog.vos Py/Sig.vos Sem/Interp.vos Sem/InterpFacts.vos Sem/Model.vos Gen/HasPatcher.vos Gen/Rules.vos Thm/Common/PatchFacts.vos Thm/Common/PatchBracket.vos
Thm/C04/Effects.vo Thm/C04/Effects.glob Thm/C04/Effects.v.beautified Thm/C04/Effects.required_vo: Thm/C04/Effects.v Core/Base.vo Core/Prog.vo Py/Sig.vo Sem/Interp.vo Sem/InterpFacts.vo Sem/Model.vo Gen/HasPatcher.vo Sem/Scenario.vo
Thm/C04/Effects.vio: Thm/C04/Effects.v Core/Base.vio Core/Prog.vio Py/Sig.vio Sem/Interp.vio Sem/InterpFacts.vio Sem/Model.vio Gen/HasPatcher.vio Sem/Scenario.vio
Thm/C04/Effects.vos Thm/C04/Effects.vok Thm/C04/Effects.required_vos: Thm/C04/Effects.v Core/Base.vos Core/Prog.vos Py/Sig.vos Sem/Interp.vos Sem/InterpFacts.vos Sem/Model.vos Gen/HasPatcher.vos Sem/Scenario.vos
Props/C04.vo Props/C04.glob Props/C04.v.beautified Props/C04.required_vo: Props/C04.v Core/Base.vo Core/Prog.vo Py/Sig.vo Sem/Interp.vo Sem/InterpFacts.vo Sem/Model.vo Gen/HasPatcher.vo Gen/Rules.vo Thm/Common/PatchFacts.vo Thm/Common/PatchBracket.vo Sem/Scenario.vo Thm/C04/Markers.vo Thm/C04/Effects.vo
Props/C04.vio: Props/C04.v Core/Base.vio Core/Prog.vio Py/Sig.vio Sem/Interp.vio Sem/InterpFacts.vio Sem/Model.vio Gen/HasPatcher.vio Gen/Rules.vio Thm/Common/PatchFacts.vio Thm/Common/PatchBracket.vio Sem/Scenario.vio Thm/C04/Markers.vio Thm/C04/Effects.vio
Props/C04.vos Props/C04.vok Props/C04.required_vos: Props/C04.v Core/Base.vos Core/Prog.vos Py/Sig.vos Sem/Interp.vos Sem/InterpFacts.vos Sem/Model.vos Gen/HasPatcher.vos Gen/Rules.vos Thm/Common/PatchFacts.vos Thm/Common/PatchBracket.vos Sem/Scenario.vos Thm/C04/Markers.vos Thm/C04/Effects.vos
Thm/C10/Errors.vo Thm/C10/Errors.glob Thm/C10/Errors.v.beautified Thm/C10/Errors.required_vo: Thm/C10/Errors.v Core/Base.vo Core/Prog.vo Py/Sig.vo Sem/Interp.vo Sem/InterpFacts.vo Sem/Model.vo Gen/Validators.vo Gen/Decorators.vo
Thm/C10/Errors.vio: Thm/C10/Errors.v Core/Base.vio Core/Prog.vio Py/Sig.vio Sem/Interp.vio Sem/InterpFacts.vio Sem/Model.vio Gen/Validators.vio Gen/Decorators.vio
Thm/C10/Errors.vos Thm/C10/Errors.vok Thm/C10/Errors.required_vos: Thm/C10/Errors.v Core/Base.vos Core/Prog.vos Py/Sig.vos Sem/Interp.vos Sem/InterpFacts.vos Sem/Model.vos Gen/Validators.vos Gen/Decorators.vos
Props/C10.vo Props/C10.glob Props/C10.v.beautified Props/C10.required_vo: Props/C10.v Core/Base.vo Core/Prog.vo Py/Sig.vo Sem/Interp.vo Sem/InterpFacts.vo Sem/Model.vo Gen/Validators.vo Gen/Decorators.vo Thm/C10/Errors.vo
Props/C10.vio: Props/C10.v Core/Base.vio Core/Prog.vio Py/Sig.vio Sem/Interp.vio Sem/InterpFacts.vio Sem/Model.vio Gen/Validators.vio Gen/Decorators.vio Thm/C10/Errors.vio
Props/C10.vos Props/C10.vok Props/C10.required_vos: Props/C10.v Core/Base.vos Core/Prog.vos Py/Sig.vos Sem/Interp.vos Sem/InterpFacts.vos Sem/Model.vos Gen/Validators.vos Gen/Decorators.vos Thm/C10/Errors.vos
Thm/C06/Transparent.vo Thm/C06/Transparent.glob Thm/C06/Transparent.v.beautified Thm/C06/Transparent.required_vo: Thm/C06/Transparent.v Core/Base.vo Core/Prog.vo Py/Sig.vo Sem/Interp.vo Sem/InterpFacts.vo Sem/StmtFacts.vo Sem/Model.vo Gen/Validators.vo Gen/HasPatcher.vo Gen/Contracts.vo Thm/Common/Loops.vo Thm/Common/PatchFacts.vo Thm/C01/Gate.vo Thm/C02/Post.vo
Thm/C06/Transparent.vio: Thm/C06/Transparent.v Core/Base.vio Core/Prog.vio Py/Sig.vio Sem/Interp.vio Sem/InterpFacts.vio Sem/StmtFacts.vio Sem/Model.vio Gen/Validators.vio Gen/HasPatcher.vio Gen/Contracts.vio Thm/Common/Loops.vio Thm/Common/PatchFacts.vio Thm/C01/Gate.vio Thm/C02/Post.vio
Thm/C06/Transparent.vos Thm/C06/Transparent.vok Thm/C06/Transparent.required_vos: Thm/C06/Transparent.v Core/Base.vos Core/Prog.vos Py/Sig.vos Sem/Interp.vos Sem/InterpFacts.vos Sem/StmtFacts.vos Sem/Model.vos Gen/Validators.vos Gen/HasPatcher.vos Gen/Contracts.vos Thm/Common/Loops.vos Thm/Common/PatchFacts.vos Thm/C01/Gate.vos Thm/C02/Post.vos
Props/C06.vo Props/C06.glob Props/C06.v.beautified Props/C06.required_vo: Props/C06.v Core/Base.vo Core/Prog.vo Py/Sig.vo Sem/Interp.vo Sem/InterpFacts.vo Sem/Model.vo Gen/Validators.vo Gen/HasPatcher.vo Gen/Contracts.vo Sem/Scenario.vo Sem/Show.vo Thm/Common/Loops.vo Thm/Common/PatchFacts.vo Thm/C01/Gate.vo Thm/C02/Post.vo Thm/C06/Transparent.vo
Props/C06.vio: Props/C06.v Core/Base.vio Core/Prog.vio Py/Sig.vio Sem/Interp.vio Sem/InterpFacts.vio Sem/Model.vio Gen/Validators.vio Gen/HasPatcher.vio Gen/Contracts.vio Sem/Scenario.vio Sem/Show.vio Thm/Common/Loops.vio Thm/Common/PatchFacts.vio Thm/C01/Gate.vio Thm/C02/Post.vio Thm/C06/Transparent.vio
Props/C06.vos Props/C06.vok Props/C06.required_vos: Props/C06.v Core/Base.vos Core/Prog.vos Py/Sig.vos Sem/Interp.vos Sem/InterpFacts.vos Sem/Model.vos Gen/Validators.vos Gen/HasPatcher.vos Gen/Contracts.vos Sem/Scenario.vos Sem/Show.vos Thm/Common/Loops.vos Thm/Common/PatchFacts.vos Thm/C01/Gate.vos Thm/C02/Post.vos Thm/C06/Transparent.vos
Thm/C12/DispatchThm.vo Thm/C12/DispatchThm.glob Thm/C12/DispatchThm.v.beautified Thm/C12/DispatchThm.required_vo: Thm/C12/DispatchThm.v Core/Base.vo Core/Prog.vo Py/Sig.vo Sem/Interp.vo Sem/InterpFacts.vo Sem/StmtFacts.vo Sem/Model.vo Gen/Dispatch.vo
Thm/C12/DispatchThm.vio: Thm/C12/DispatchThm.v Core/Base.vio Core/Prog.vio Py/Sig.vio Sem/Interp.vio Sem/InterpFacts.vio Sem/StmtFacts.vio Sem/Model.vio Gen/Dispatch.vio
Thm/C12/DispatchThm.vos Thm/C12/DispatchThm.vok Thm/C12/DispatchThm.required_vos: Thm/C12/DispatchThm.v Core/Base.vos Core/Prog.vos Py/Sig.vos Sem/Interp.vos Sem/InterpFacts.vos Sem/StmtFacts.vos Sem/Model.vos Gen/Dispatch.vos
Props/C12.vo Props/C12.glob Props/C12.v.beautified Props/C12.required_vo: Props/C12.v Core/Base.vo Core/Prog.vo Py/Sig.vo Sem/Interp.vo Sem/InterpFacts.vo Sem/Model.vo Gen/Dispatch.vo Thm/C12/DispatchThm.vo
Props/C12.vio: Props/C12.v Core/Base.vio Core/Prog.vio Py/Sig.vio Sem/Interp.vio Sem/InterpFacts.vio Sem/Model.vio Gen/Dispatch.vio Thm/C12/DispatchThm.vio
Props/C12.vos Props/C12.vok Props/C12.required_vos: Props/C12.v Core/Base.vos Core/Prog.vos Py/Sig.vos Sem/Interp.vos Sem/InterpFacts.vos Sem/Model.vos Gen/Dispatch.vos Thm/C12/DispatchThm.vos
Props/C07.vo Props/C07.glob Props/C07.v.beautified Props/C07.required_vo: Props/C07.v Core/Base.vo Core/Prog.vo Py/Sig.vo Sem/Interp.vo Sem/InterpFacts.vo Sem/Model.vo Gen/Validators.vo Gen/HasPatcher.vo Gen/Contracts.vo Gen/State.vo Sem/ScnSwitch.vo Thm/C07/Switch.vo Thm/Common/Loops.vo Thm/C01/Gate.vo
Props/C07.vio: Props/C07.v Core/Base.vio Core/Prog.vio Py/Sig.vio Sem/Interp.vio Sem/InterpFacts.vio Sem/Model.vio Gen/Validators.vio Gen/HasPatcher.vio Gen/Contracts.vio Gen/State.vio Sem/ScnSwitch.vio Thm/C07/Switch.vio Thm/Common/Loops.vio Thm/C01/Gate.vio
Props/C07.vos Props/C07.vok Props/C07.required_vos: Props/C07.v Core/Base.vos Core/Prog.vos Py/Sig.vos Sem/Interp.vos Sem/InterpFacts.vos Sem/Model.vos Gen/Validators.vos Gen/HasPatcher.vos Gen/Contracts.vos Gen/State.vos Sem/ScnSwitch.vos Thm/C07/Switch.vos Thm/Common/Loops.vos Thm/C01/Gate.vos
Thm/C13/IterStep.vo Thm/C13/IterStep.glob Thm/C13/IterStep.v.beautified Thm/C13/IterStep.required_vo: Thm/C13/IterStep.v Core/Base.vo Core/Prog.vo Py/Sig.vo Sem/Interp.vo Sem/InterpFacts.vo Sem/StmtFacts.vo Sem/Model.vo Gen/Validators.vo Gen/HasPatcher.vo Gen/Contracts.vo Thm/Common/Loops.vo Thm/Common/PatchFacts.vo Thm/Common/PatchBracket.vo Thm/C08/FrameCore.vo Thm/C02/Post.vo Thm/C06/Transparent.vo
Thm/C13/IterStep.vio: Thm/C13/IterStep.v Core/Base.vio Core/Prog.vio Py/Sig.vio Sem/Interp.vio Sem/InterpFacts.vio Sem/StmtFacts.vio Sem/Model.vio Gen/Validators.vio Gen/HasPatcher.vio Gen/Contracts.vio Thm/Common/Loops.vio Thm/Common/PatchFacts.vio Thm/Common/PatchBracket.vio Thm/C08/FrameCore.vio Thm/C02/Post.vio Thm/C06/Transparent.vio
Thm/C13/IterStep.vos Thm/C13/IterStep.vok Thm/C13/IterStep.required_vos: Thm/C13/IterStep.v Core/Base.vos Core/Prog.vos Py/Sig.vos Sem/Interp.vos Sem/InterpFacts.vos Sem/StmtFacts.vos Sem/Model.vos Gen/Validators.vos Gen/HasPatcher.vos Gen/Contracts.vos Thm/Common/Loops.vos Thm/Common/PatchFacts.vos Thm/Common/PatchBracket.vos Thm/C08/FrameCore.vos Thm/C02/Post.vos Thm/C06/Transparent.vos
Props/C13.vo Props/C13.glob Props/C13.v.beautified Props/C13.required_vo: Props/C13.v Core/Base.vo Core/Prog.vo Py/Sig.vo Sem/Interp.vo Sem/InterpFacts.vo Sem/Model.vo Gen/Validators.vo Gen/HasPatcher.vo Gen/Contracts.vo Sem/Scenario.vo Sem/Show.vo Sem/ScnSwitch.vo Thm/Common/Loops.vo Thm/Common/PatchFacts.vo Thm/Common/PatchBracket.vo Thm/C08/FrameCore.vo Thm/C02/Post.vo Thm/C06/Transparent.vo Thm/C13/IterStep.vo
Props/C13.vio: Props/C13.v Core/Base.vio Core/Prog.vio Py/Sig.vio Sem/Interp.vio Sem/InterpFacts.vio Sem/Model.vio Gen/Validators.vio Gen/HasPatcher.vio Gen/Contracts.vio Sem/Scenario.vio Sem/Show.vio Sem/ScnSwitch.vio Thm/Common/Loops.vio Thm/Common/PatchFacts.vio Thm/Common/PatchBracket.vio Thm/C08/FrameCore.vio Thm/C02/Post.vio Thm/C06/Transparent.vio Thm/C13/IterStep.vio
Props/C13.vos Props/C13.vok Props/C13.required_vos: Props/C13.v Core/Base.vos Core/Prog.vos Py/Sig.vos Sem/Interp.vos Sem/InterpFacts.vos Sem/Model.vos Gen/Validators.vos Gen/HasPatcher.vos Gen/Contracts.vos Sem/Scenario.vos Sem/Show.vos Sem/ScnSwitch.vos Thm/Common/Loops.vos Thm/Common/PatchFacts.vos Thm/Common/PatchBracket.vos Thm/C08/FrameCore.vos Thm/C02/Post.vos Thm/C06/Transparent.vos Thm/C13/IterStep.vos
Thm/C09/Compose.vo Thm/C09/Compose.glob Thm/C09/Compose.v.beautified Thm/C09/Compose.required_vo: Thm/C09/Compose.v Core/Base.vo Core/Prog.vo Py/Sig.vo Sem/Interp.vo Sem/Model.vo Sem/Scenario.vo Sem/ObjModel.vo Sem/ScnObj.vo
Thm/C09/Compose.vio: Thm/C09/Compose.v Core/Base.vio Core/Prog.vio Py/Sig.vio Sem/Interp.vio Sem/Model.vio Sem/Scenario.vio Sem/ObjModel.vio Sem/ScnObj.vio
Thm/C09/Compose.vos Thm/C09/Compose.vok Thm/C09/Compose.required_vos: Thm/C09/Compose.v Core/Base.vos Core/Prog.vos Py/Sig.vos Sem/Interp.vos Sem/Model.vos Sem/Scenario.vos Sem/ObjModel.vos Sem/ScnObj.vos
Props/C09.vo Props/C09.glob Props/C09.v.beautified Props/C09.required_vo: Props/C09.v Core/Base.vo Core/Prog.vo Py/Sig.vo Sem/Interp.vo Sem/Model.vo Sem/Scenario.vo Sem/ObjModel.vo Sem/ScnObj.vo Gen/ObjPin.vo Thm/C09/Compose.vo
Props/C09.vio: Props/C09.v Core/Base.vio Core/Prog.vio Py/Sig.vio Sem/Interp.vio Sem/Model.vio Sem/Scenario.vio Sem/ObjModel.vio Sem/ScnObj.vio Gen/ObjPin.vio Thm/C09/Compose.vio
Props/C09.vos Props/C09.vok Props/C09.required_vos: Props/C09.v Core/Base.vos Core/Prog.vos Py/Sig.vos Sem/Interp.vos Sem/Model.vos Sem/Scenario.vos Sem/ObjModel.vos Sem/ScnObj.vos Gen/ObjPin.vos Thm/C09/Compose.vos
Thm/C14/Introspect.vo Thm/C14/Introspect.glob Thm/C14/Introspect.v.beautified Thm/C14/Introspect.required_vo: Thm/C14/Introspect.v Core/Base.vo Core/Prog.vo Py/Sig.vo Sem/Interp.vo Sem/Model.vo Sem/Scenario.vo Sem/ObjModel.vo Sem/ScnObj.vo Thm/C09/Compose.vo
Thm/C14/Introspect.vio: Thm/C14/Introspect.v Core/Base.vio Core/Prog.vio Py/Sig.vio Sem/Interp.vio Sem/Model.vio Sem/Scenario.vio Sem/ObjModel.vio Sem/ScnObj.vio Thm/C09/Compose.vio
Thm/C14/Introspect.vos Thm/C14/Introspect.vok Thm/C14/Introspect.required_vos: Thm/C14/Introspect.v Core/Base.vos Core/Prog.vos Py/Sig.vos Sem/Interp.vos Sem/Model.vos Sem/Scenario.vos Sem/ObjModel.vos Sem/ScnObj.vos Thm/C09/Compose.vos
Props/C14.vo Props/C14.glob Props/C14.v.beautified Props/C14.required_vo: Props/C14.v Core/Base.vo Core/Prog.vo Py/Sig.vo Sem/Interp.vo Sem/Model.vo Sem/Scenario.vo Sem/ObjModel.vo Sem/ScnObj.vo Gen/ObjPin.vo Thm/C09/Compose.vo Thm/C14/Introspect.vo
Props/C14.vio: Props/C14.v Core/Base.vio Core/Prog.vio Py/Sig.vio Sem/Interp.vio Sem/Model.vio Sem/Scenario.vio Sem/ObjModel.vio Sem/ScnObj.vio Gen/ObjPin.vio Thm/C09/Compose.vio Thm/C14/Introspect.vio
Props/C14.vos Props/C14.vok Props/C14.required_vos: Props/C14.v Core/Base.vos Core/Prog.vos Py/Sig.vos Sem/Interp.vos Sem/Model.vos Sem/Scenario.vos Sem/ObjModel.vos Sem/ScnObj.vos Gen/ObjPin.vos Thm/C09/Compose.vos Thm/C14/Introspect.vos
Thm/C11/Inherit.vo Thm/C11/Inherit.glob Thm/C11/Inherit.v.beautified Thm/C11/Inherit.required_vo: Thm/C11/Inherit.v Core/Base.vo Py/Mro.vo Sem/Show.vo Sem/ClassModel.vo
Thm/C11/Inherit.vio: Thm/C11/Inherit.v Core/Base.vio Py/Mro.vio Sem/Show.vio Sem/ClassModel.vio
Thm/C11/Inherit.vos Thm/C11/Inherit.vok Thm/C11/Inherit.required_vos: Thm/C11/Inherit.v Core/Base.vos Py/Mro.vos Sem/Show.vos Sem/ClassModel.vos
Props/C11.vo Props/C11.glob Props/C11.v.beautified Props/C11.required_vo: Props/C11.v Core/Base.vo Py/Mro.vo Sem/Show.vo Sem/ClassModel.vo Gen/ObjPin.vo Thm/C11/Inherit.vo
Props/C11.vio: Props/C11.v Core/Base.vio Py/Mro.vio Sem/Show.vio Sem/ClassModel.vio Gen/ObjPin.vio Thm/C11/Inherit.vio
Props/C11.vos Props/C11.vok Props/C11.required_vos: Props/C11.v Core/Base.vos Py/Mro.vos Sem/Show.vos Sem/ClassModel.vos Gen/ObjPin.vos Thm/C11/Inherit.vos
Thm/C05/Invariants.vo Thm/C05/Invariants.glob Thm/C05/Invariants.v.beautified Thm/C05/Invariants.required_vo: Thm/C05/Invariants.v Core/Base.vo Sem/Show.vo Sem/InvModel.vo
Thm/C05/Invariants.vio: Thm/C05/Invariants.v Core/Base.vio Sem/Show.vio Sem/InvModel.vio
Thm/C05/Invariants.vos Thm/C05/Invariants.vok Thm/C05/Invariants.required_vos: Thm/C05/Invariants.v Core/Base.vos Sem/Show.vos Sem/InvModel.vos
Props/C05.vo Props/C05.glob Props/C05.v.beautified Props/C05.required_vo: Props/C05.v Core/Base.vo Sem/Show.vo Sem/InvModel.vo Gen/ObjPin.vo Thm/C05/Invariants.vo
Props/C05.vio: Props/C05.v Core/Base.vio Sem/Show.vio Sem/InvModel.vio Gen/ObjPin.vio Thm/C05/Invariants.vio
Props/C05.vos Props/C05.vok Props/C05.required_vos: Props/C05.v Core/Base.vos Sem/Show.vos Sem/InvModel.vos Gen/ObjPin.vos Thm/C05/Invariants.vos
Thm/C20/Imports.vo Thm/C20/Imports.glob Thm/C20/Imports.v.beautified Thm/C20/Imports.required_vo: Thm/C20/Imports.v Core/Base.vo Sem/Show.vo Gen/HasPatcher.vo Sem/ImportModel.vo
Thm/C20/Imports.vio: Thm/C20/Imports.v Core/Base.vio Sem/Show.vio Gen/HasPatcher.vio Sem/ImportModel.vio
Thm/C20/Imports.vos Thm/C20/Imports.vok Thm/C20/Imports.required_vos: Thm/C20/Imports.v Core/Base.vos Sem/Show.vos Gen/HasPatcher.vos Sem/ImportModel.vos
Props/C20.vo Props/C20.glob Props/C20.v.beautified Props/C20.required_vo: Props/C20.v Core/Base.vo Sem/Show.vo Gen/HasPatcher.vo Sem/ImportModel.vo Gen/ObjPin.vo Thm/C20/Imports.vo
Props/C20.vio: Props/C20.v Core/Base.vio Sem/Show.vio Gen/HasPatcher.vio Sem/ImportModel.vio Gen/ObjPin.vio Thm/C20/Imports.vio
Props/C20.vos Props/C20.vok Props/C20.required_vos: Props/C20.v Core/Base.vos Sem/Show.vos Gen/HasPatcher.vos Sem/ImportModel.vos Gen/ObjPin.vos Thm/C20/Imports.vos
Thm/C15/Cases.vo Thm/C15/Cases.glob Thm/C15/Cases.v.beautified Thm/C15/Cases.required_vo: Thm/C15/Cases.v Core/Base.vo Core/Prog.vo Py/Sig.vo Sem/Interp.vo Sem/InterpFacts.vo Sem/StmtFacts.vo Sem/Model.vo Gen/Validators.vo Thm/Common/Loops.vo Gen/Testing.vo
Thm/C15/Cases.vio: Thm/C15/Cases.v Core/Base.vio Core/Prog.vio Py/Sig.vio Sem/Interp.vio Sem/InterpFacts.vio Sem/StmtFacts.vio Sem/Model.vio Gen/Validators.vio Thm/Common/Loops.vio Gen/Testing.vio
Thm/C15/Cases.vos Thm/C15/Cases.vok Thm/C15/Cases.required_vos: Thm/C15/Cases.v Core/Base.vos Core/Prog.vos Py/Sig.vos Sem/Interp.vos Sem/InterpFacts.vos Sem/StmtFacts.vos Sem/Model.vos Gen/Validators.vos Thm/Common/Loops.vos Gen/Testing.vos
Props/C15.vo Props/C15.glob Props/C15.v.beautified Props/C15.required_vo: Props/C15.v Core/Base.vo Core/Prog.vo Py/Sig.vo Sem/Interp.vo Sem/InterpFacts.vo Sem/Model.vo Gen/Validators.vo Thm/Common/Loops.vo Gen/Testing.vo Thm/C15/Cases.vo
Props/C15.vio: Props/C15.v Core/Base.vio Core/Prog.vio Py/Sig.vio Sem/Interp.vio Sem/InterpFacts.vio Sem/Model.vio Gen/Validators.vio Thm/Common/Loops.vio Gen/Testing.vio Thm/C15/Cases.vio
Props/C15.vos Props/C15.vok Props/C15.required_vos: Props/C15.v Core/Base.vos Core/Prog.vos Py/Sig.vos Sem/Interp.vos Sem/InterpFacts.vos Sem/Model.vos Gen/Validators.vos Thm/Common/Loops.vos Gen/Testing.vos Thm/C15/Cases.vos
Thm/C19/Lines.vo Thm/C19/Lines.glob Thm/C19/Lines.v.beautified Thm/C19/Lines.required_vo: Thm/C19/Lines.v Gen/Transformer.vo
Thm/C19/Lines.vio: Thm/C19/Lines.v Gen/Transformer.vio
Thm/C19/Lines.vos Thm/C19/Lines.vok Thm/C19/Lines.required_vos: Thm/C19/Lines.v Gen/Transformer.vos
Thm/C19/Render.vo Thm/C19/Render.glob Thm/C19/Render.v.beautified Thm/C19/Render.required_vo: Thm/C19/Render.v Gen/Transformer.vo Thm/C19/Lines.vo
Thm/C19/Render.vio: Thm/C19/Render.v Gen/Transformer.vio Thm/C19/Lines.vio
Thm/C19/Render.vos Thm/C19/Render.vok Thm/C19/Render.required_vos: Thm/C19/Render.v Gen/Transformer.vos Thm/C19/Lines.vos
Thm/C19/Plan.vo Thm/C19/Plan.glob Thm/C19/Plan.v.beautified Thm/C19/Plan.required_vo: Thm/C19/Plan.v Gen/Transformer.vo Sem/DecorateModel.vo Thm/C19/Lines.vo Thm/C19/Render.vo
Thm/C19/Plan.vio: Thm/C19/Plan.v Gen/Transformer.vio Sem/DecorateModel.vio Thm/C19/Lines.vio Thm/C19/Render.vio
Thm/C19/Plan.vos Thm/C19/Plan.vok Thm/C19/Plan.required_vos: Thm/C19/Plan.v Gen/Transformer.vos Sem/DecorateModel.vos Thm/C19/Lines.vos Thm/C19/Render.vos
Sem/ScnDecorate.vo Sem/ScnDecorate.glob Sem/ScnDecorate.v.beautified Sem/ScnDecorate.required_vo: Sem/ScnDecorate.v Sem/Show.vo Gen/Transformer.vo Sem/DecorateModel.vo Thm/C19/Lines.vo Thm/C19/Render.vo
Sem/ScnDecorate.vio: Sem/ScnDecorate.v Sem/Show.vio Gen/Transformer.vio Sem/DecorateModel.vio Thm/C19/Lines.vio Thm/C19/Render.vio
Sem/ScnDecorate.vos Sem/ScnDecorate.vok Sem/ScnDecorate.required_vos: Sem/ScnDecorate.v Sem/Show.vos Gen/Transformer.vos Sem/DecorateModel.vos Thm/C19/Lines.vos Thm/C19/Render.vos
Props/C19.vo Props/C19.glob Props/C19.v.beautified Props/C19.required_vo: Props/C19.v Gen/Transformer.vo Sem/DecorateModel.vo Thm/C19/Lines.vo Thm/C19/Render.vo Thm/C19/Plan.vo
Props/C19.vio: Props/C19.v Gen/Transformer.vio Sem/DecorateModel.vio Thm/C19/Lines.vio Thm/C19/Render.vio Thm/C19/Plan.vio
Props/C19.vos Props/C19.vok Props/C19.required_vos: Props/C19.v Gen/Transformer.vos Sem/DecorateModel.vos Thm/C19/Lines.vos Thm/C19/Render.vos Thm/C19/Plan.vos
Thm/C18/Lint.vo Thm/C18/Lint.glob Thm/C18/Lint.v.beautified Thm/C18/Lint.required_vo: Thm/C18/Lint.v Core/Base.vo Sem/Model.vo Gen/HasPatcher.vo Gen/Rules.vo Sem/LintModel.vo
Thm/C18/Lint.vio: Thm/C18/Lint.v Core/Base.vio Sem/Model.vio Gen/HasPatcher.vio Gen/Rules.vio Sem/LintModel.vio
Thm/C18/Lint.vos Thm/C18/Lint.vok Thm/C18/Lint.required_vos: Thm/C18/Lint.v Core/Base.vos Sem/Model.vos Gen/HasPatcher.vos Gen/Rules.vos Sem/LintModel.vos
Props/C18.vo Props/C18.glob Props/C18.v.beautified Props/C18.required_vo: Props/C18.v Core/Base.vo Sem/Model.vo Gen/HasPatcher.vo Gen/Rules.vo Gen/LintPin.vo Sem/LintModel.vo Thm/C18/Lint.vo
Props/C18.vio: Props/C18.v Core/Base.vio Sem/Model.vio Gen/HasPatcher.vio Gen/Rules.vio Gen/LintPin.vio Sem/LintModel.vio Thm/C18/Lint.vio
Props/C18.vos Props/C18.vok Props/C18.required_vos: Props/C18.v Core/Base.vos Sem/Model.vos Gen/HasPatcher.vos Gen/Rules.vos Gen/LintPin.vos Sem/LintModel.vos Thm/C18/Lint.vos
Thm/C16/Driver.vo Thm/C16/Driver.glob Thm/C16/Driver.v.beautified Thm/C16/Driver.required_vo: Thm/C16/Driver.v Core/Base.vo Sem/Model.vo Gen/HasPatcher.vo Gen/Rules.vo Gen/DriverPin.vo Sem/LintDriver.vo
Thm/C16/Driver.vio: Thm/C16/Driver.v Core/Base.vio Sem/Model.vio Gen/HasPatcher.vio Gen/Rules.vio Gen/DriverPin.vio Sem/LintDriver.vio
Thm/C16/Driver.vos Thm/C16/Driver.vok Thm/C16/Driver.required_vos: Thm/C16/Driver.v Core/Base.vos Sem/Model.vos Gen/HasPatcher.vos Gen/Rules.vos Gen/DriverPin.vos Sem/LintDriver.vos
Props/C16.vo Props/C16.glob Props/C16.v.beautified Props/C16.required_vo: Props/C16.v Core/Base.vo Sem/Model.vo Gen/HasPatcher.vo Gen/Rules.vo Gen/DriverPin.vo Sem/LintDriver.vo Thm/C16/Driver.vo
Props/C16.vio: Props/C16.v Core/Base.vio Sem/Model.vio Gen/HasPatcher.vio Gen/Rules.vio Gen/DriverPin.vio Sem/LintDriver.vio Thm/C16/Driver.vio
Props/C16.vos Props/C16.vok Props/C16.required_vos: Props/C16.v Core/Base.vos Sem/Model.vos Gen/HasPatcher.vos Gen/Rules.vos Gen/DriverPin.vos Sem/LintDriver.vos Thm/C16/Driver.vos
Thm/C17/Exec.vo Thm/C17/Exec.glob Thm/C17/Exec.v.beautified Thm/C17/Exec.required_vo: Thm/C17/Exec.v Core/Base.vo Sem/LintExec.vo
Thm/C17/Exec.vio: Thm/C17/Exec.v Core/Base.vio Sem/LintExec.vio
Thm/C17/Exec.vos Thm/C17/Exec.vok Thm/C17/Exec.required_vos: Thm/C17/Exec.v Core/Base.vos Sem/LintExec.vos
Props/C17.vo Props/C17.glob Props/C17.v.beautified Props/C17.required_vo: Props/C17.v Core/Base.vo Gen/ExecPin.vo Sem/LintExec.vo Thm/C17/Exec.vo
Props/C17.vio: Props/C17.v Core/Base.vio Gen/ExecPin.vio Sem/LintExec.vio Thm/C17/Exec.vio
Props/C17.vos Props/C17.vok Props/C17.required_vos: Props/C17.v Core/Base.vos Gen/ExecPin.vos Sem/LintExec.vos Thm/C17/Exec.vos
