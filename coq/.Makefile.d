Core/Base.vo Core/Base.glob Core/Base.v.beautified Core/Base.required_vo: Core/Base.v 
Core/Base.vio: Core/Base.v 
Core/Base.vos Core/Base.vok Core/Base.required_vos: Core/Base.v 
Core/Prog.vo Core/Prog.glob Core/Prog.v.beautified Core/Prog.required_vo: Core/Prog.v Core/Base.vo
Core/Prog.vio: Core/Prog.v Core/Base.vio
Core/Prog.vos Core/Prog.vok Core/Prog.required_vos: Core/Prog.v Core/Base.vos
Sem/Interp.vo Sem/Interp.glob Sem/Interp.v.beautified Sem/Interp.required_vo: Sem/Interp.v Core/Base.vo Core/Prog.vo
Sem/Interp.vio: Sem/Interp.v Core/Base.vio Core/Prog.vio
Sem/Interp.vos Sem/Interp.vok Sem/Interp.required_vos: Sem/Interp.v Core/Base.vos Core/Prog.vos
Sem/InterpFacts.vo Sem/InterpFacts.glob Sem/InterpFacts.v.beautified Sem/InterpFacts.required_vo: Sem/InterpFacts.v Core/Base.vo Core/Prog.vo Sem/Interp.vo
Sem/InterpFacts.vio: Sem/InterpFacts.v Core/Base.vio Core/Prog.vio Sem/Interp.vio
Sem/InterpFacts.vos Sem/InterpFacts.vok Sem/InterpFacts.required_vos: Sem/InterpFacts.v Core/Base.vos Core/Prog.vos Sem/Interp.vos
Sem/Show.vo Sem/Show.glob Sem/Show.v.beautified Sem/Show.required_vo: Sem/Show.v Core/Base.vo
Sem/Show.vio: Sem/Show.v Core/Base.vio
Sem/Show.vos Sem/Show.vok Sem/Show.required_vos: Sem/Show.v Core/Base.vos
Gen/State.vo Gen/State.glob Gen/State.v.beautified Gen/State.required_vo: Gen/State.v Core/Base.vo Core/Prog.vo
Gen/State.vio: Gen/State.v Core/Base.vio Core/Prog.vio
Gen/State.vos Gen/State.vok Gen/State.required_vos: Gen/State.v Core/Base.vos Core/Prog.vos
Sem/ScnSwitch.vo Sem/ScnSwitch.glob Sem/ScnSwitch.v.beautified Sem/ScnSwitch.required_vo: Sem/ScnSwitch.v Core/Base.vo Core/Prog.vo Sem/Interp.vo Sem/Show.vo Gen/State.vo
Sem/ScnSwitch.vio: Sem/ScnSwitch.v Core/Base.vio Core/Prog.vio Sem/Interp.vio Sem/Show.vio Gen/State.vio
Sem/ScnSwitch.vos Sem/ScnSwitch.vok Sem/ScnSwitch.required_vos: Sem/ScnSwitch.v Core/Base.vos Core/Prog.vos Sem/Interp.vos Sem/Show.vos Gen/State.vos
Thm/C07/Switch.vo Thm/C07/Switch.glob Thm/C07/Switch.v.beautified Thm/C07/Switch.required_vo: Thm/C07/Switch.v Core/Base.vo Core/Prog.vo Sem/Interp.vo Sem/InterpFacts.vo Gen/State.vo Sem/ScnSwitch.vo
Thm/C07/Switch.vio: Thm/C07/Switch.v Core/Base.vio Core/Prog.vio Sem/Interp.vio Sem/InterpFacts.vio Gen/State.vio Sem/ScnSwitch.vio
Thm/C07/Switch.vos Thm/C07/Switch.vok Thm/C07/Switch.required_vos: Thm/C07/Switch.v Core/Base.vos Core/Prog.vos Sem/Interp.vos Sem/InterpFacts.vos Gen/State.vos Sem/ScnSwitch.vos
Props/C07.vo Props/C07.glob Props/C07.v.beautified Props/C07.required_vo: Props/C07.v Core/Base.vo Core/Prog.vo Sem/Interp.vo Sem/InterpFacts.vo Gen/State.vo Sem/ScnSwitch.vo Thm/C07/Switch.vo
Props/C07.vio: Props/C07.v Core/Base.vio Core/Prog.vio Sem/Interp.vio Sem/InterpFacts.vio Gen/State.vio Sem/ScnSwitch.vio Thm/C07/Switch.vio
Props/C07.vos Props/C07.vok Props/C07.required_vos: Props/C07.v Core/Base.vos Core/Prog.vos Sem/Interp.vos Sem/InterpFacts.vos Gen/State.vos Sem/ScnSwitch.vos Thm/C07/Switch.vos
