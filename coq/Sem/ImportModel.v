(* Sem/ImportModel.v -- module-load contracts: activate / deactivate / module_load and DealLoader.exec_module over an abstract
   module source (its top-level statements) and an abstract import-time behaviour. Hand-written from deal/_imports.py (source
   pinned by Gen/ObjPin.v); tied to the code by the C20 family through the real import system. *)
From Coq Require Import List Bool String.
Import ListNotations.
Require Import Base Show HasPatcher.
Open Scope string_scope.

Inductive finder := PathFinderF | DealFinderF.
Definition finder_eqb (a b : finder) := match a, b with PathFinderF, PathFinderF | DealFinderF, DealFinderF => true | _, _ => false end.
Record istate := { meta_path : list finder; enabled : bool; loaded : list string }.
Definition active (s : istate) := existsb (finder_eqb DealFinderF) (meta_path s).
Definition replace_finder (a b : finder) (l : list finder) : list finder :=   (* l[l.index(a)] = b *)
  (fix go (l : list finder) := match l with [] => [] | x :: t => if finder_eqb x a then b :: t else x :: go t end) l.
Definition activate (s : istate) : istate * bool :=
  if negb (enabled s) then (s, false)
  else if active s then (s, false)
  else ({| meta_path := replace_finder PathFinderF DealFinderF (meta_path s); enabled := enabled s; loaded := loaded s |}, true).
Definition deactivate (s : istate) : istate * bool :=
  if negb (active s) then (s, false)
  else ({| meta_path := replace_finder DealFinderF PathFinderF (meta_path s); enabled := enabled s; loaded := loaded s |}, true).

(* contract expressions inside deal.module_load( ... ) *)
Inductive cexpr :=
| CAttr (base attr : string)                         (* base.attr with base a plain name *)
| CNested                                            (* x.y.attr : the value of the attribute is not a plain name *)
| CCall (f : cexpr) (literal_args keywords : bool) (markers : list string)   (* f(args) *)
| COther.                                            (* a name, a lambda, ... *)
Inductive tstmt := TLoad (func_name : string) (args : list cexpr) | TOther.
Record msource := { m_body : list tstmt;               (* top-level statements *)
                    m_calls_module_load : option nat;  (* the module executes deal.module_load(...) with that many arguments at run time *)
                    m_arg_error : option string;       (* evaluating those arguments raises (deal.typo -> AttributeError, ...) *)
                    m_prints : bool; m_raises : option string; m_socket : bool }.

(* DealLoader._get_contracts: the arguments of the FIRST top-level expression statement calling exactly deal.module_load *)
Fixpoint get_contracts (body : list tstmt) : list cexpr :=
  match body with
  | [] => []
  | TLoad n args :: t => if String.eqb n "deal.module_load" then args else get_contracts t
  | TOther :: t => get_contracts t
  end.
Inductive contract := KPure | KSafe | KHas (markers : list string) | KRaises | KOtherContract.
Inductive cres := CSome (c : contract) | CNone | CCrash.    (* CCrash: _exec_contract itself raises AttributeError *)
(* DealLoader.SUPPORTED: the attributes of deal that module_load accepts (anything else is never looked up, let alone called) *)
Definition deal_names : list string := ["pure"; "safe"; "has"; "raises"].
(* DealLoader._get_deal_attr: the attribute of the deal package a node names *)
Definition deal_attr (e : cexpr) : cres :=
  match e with
  | CAttr base attr =>
      if negb (String.eqb base "deal") then CNone
      else if String.eqb attr "pure" then CSome KPure else if String.eqb attr "safe" then CSome KSafe
      else if String.eqb attr "has" then CSome (KHas []) else if String.eqb attr "raises" then CSome KRaises
      else if existsb (String.eqb attr) deal_names then CSome KOtherContract else CNone
  | CNested => CCrash
  | _ => CNone
  end.
(* DealLoader._exec_contract: a call (no keywords, literal arguments) of a deal attribute; without a call only deal.pure / deal.safe *)
Definition exec_contract (e : cexpr) : cres :=
  match e with
  | CCall f lit kw markers =>
      if kw then CNone else if negb lit then CNone else
      match deal_attr f with
      | CSome (KHas _) => CSome (KHas markers)
      | r => r
      end
  | _ => match deal_attr e with
         | CSome KPure => CSome KPure
         | CSome KSafe => CSome KSafe
         | CSome _ => CNone
         | r => r
         end
  end.

Inductive ires := IOk | IExc (c : string).
(* what executing the module body does under a list of contracts (deal.chain of them over exec_module) *)
(* deal.chain(c1..cn): every has() / pure replaces the patcher installed by the previous one: the last one decides *)
Definition last_markers (cs : list contract) : option (list string) :=
  fold_left (fun acc c => match c with KPure => Some [] | KHas m => Some m | _ => acc end) cs None.
Definition out_allowed (cs : list contract) : bool := match last_markers cs with Some m => has_stdout m | None => true end.
Definition sock_allowed (cs : list contract) : bool := match last_markers cs with Some m => has_network m | None => true end.
Definition restricts_exc (c : contract) : bool := match c with KPure | KSafe | KRaises => true | _ => false end.
Definition run_time_call (s : istate) (src : msource) : option ires :=     (* the module's own call of deal.module_load(...) *)
  match m_calls_module_load src with
  | None => None
  | Some n => match m_arg_error src with Some c => Some (IExc c) | None =>
              if negb (enabled s) then None
              else if Nat.eqb n 0 then Some (IExc "RuntimeError")
              else if negb (active s) then Some (IExc "RuntimeError") else None end
  end.
Definition exec_body (s : istate) (src : msource) (cs : list contract) : ires :=
  match run_time_call s src with
  | Some r => match r with IExc c => if existsb restricts_exc cs then IExc "RaisesContractError" else IExc c | _ => r end
  | None =>
      if m_prints src && negb (out_allowed cs) then IExc "SilentContractError"
      else if m_socket src && negb (sock_allowed cs) then IExc "OfflineContractError"
      else match m_raises src with
           | Some c => if existsb restricts_exc cs then IExc "RaisesContractError" else IExc c
           | None => IOk
           end
  end.
(* DealLoader.exec_module when the finder is installed; the plain loader otherwise. importlib drops the module on failure. *)
Definition import_module (s : istate) (name : string) (src : msource) : istate * ires :=
  let finish r := match r with
                  | IOk => ({| meta_path := meta_path s; enabled := enabled s; loaded := name :: loaded s |}, IOk)
                  | e => (s, e) end in
  if negb (active s) then finish (exec_body s src [])
  else if negb (enabled s) then finish (exec_body s src [])      (* contracts are disabled: the plain loader, whatever the source declares *)
  else match get_contracts (m_body src) with
       | [] => finish (exec_body s src [])
       | nodes =>
           (* the nodes are converted one by one: the first that cannot be converted decides *)
           let fix conv (l : list cexpr) (acc : list contract) : list contract + string :=
             match l with
             | [] => inl acc
             | e :: t => match exec_contract e with
                         | CSome c => conv t (acc ++ [c])%list
                         | CNone => inr "RuntimeError"
                         | CCrash => inr "AttributeError" end
             end in
           match conv nodes [] with
           | inr c => (s, IExc c)
           | inl cs => finish (exec_body s src cs)
           end
       end.

Inductive iaction := AActivate | ADeactivate | AImport (name : string) (src : msource) | ASetEnabled (b : bool).
Definition istep (s : istate) (a : iaction) : istate * string :=
  match a with
  | AActivate => let (s1, r) := activate s in (s1, "activate=" ++ show_bool r)
  | ADeactivate => let (s1, r) := deactivate s in (s1, "deactivate=" ++ show_bool r)
  | AImport n src => let (s1, r) := import_module s n src in
                     (s1, "import " ++ n ++ "=" ++ match r with IOk => "ok" | IExc c => c end ++ " registered=" ++ show_bool (existsb (String.eqb n) (loaded s1)))
  | ASetEnabled b => ({| meta_path := meta_path s; enabled := b; loaded := loaded s |}, "enabled=" ++ show_bool b)
  end.
Fixpoint irun (s : istate) (l : list iaction) : list string :=
  match l with [] => [] | a :: t => let (s1, o) := istep s a in (o ++ " active=" ++ show_bool (active s1) ++ " enabled=" ++ show_bool (enabled s1)) :: irun s1 t end.
Definition istate0 : istate := {| meta_path := [PathFinderF]; enabled := true; loaded := [] |}.
Definition show_imports (l : list iaction) : string := join "|" (irun istate0 l).
