(* Sem/LintDriver.v -- the linter's rule driver (Checker.get_errors: de-duplication and noqa filter), the position back-fill of
   extractor tokens (Extractor._ensure_node_info) and the lint command (exit status, json mode). Hand-written from
   deal/linter/_checker.py, deal/linter/_error.py, deal/linter/_extractors/common.py and deal/_cli/_lint.py; source pinned by
   tools/py2coq/tr_lintdriver.py, which also regenerates the two sentinel constants into Gen/DriverPin.v. *)
From Coq Require Import List Arith Bool String.
Import ListNotations.
Require Import DriverPin.
Open Scope string_scope.
Local Open Scope list_scope.

Record err := { e_row : nat; e_col : nat; e_code : nat; e_text : string; e_value : option string }.
(* Error.__hash__: (row, col, code, value) *)
Definition opt_eqb (a b : option string) : bool := match a, b with None, None => true | Some x, Some y => String.eqb x y | _, _ => false end.
Definition key_eqb (a b : err) : bool :=
  Nat.eqb (e_row a) (e_row b) && Nat.eqb (e_col a) (e_col b) && Nat.eqb (e_code a) (e_code b) && opt_eqb (e_value a) (e_value b).

(* three-digit rendering of a code and str.startswith(tuple of prefixes) *)
Definition digit (n : nat) : string := String (Ascii.ascii_of_nat (48 + n)) "".
Definition code3 (c : nat) : string := (digit ((c / 100) mod 10) ++ digit ((c / 10) mod 10) ++ digit (c mod 10))%string.
Definition suppressed (noqa : list string) (e : err) : bool := existsb (fun p => String.prefix p (code3 (e_code e))) noqa.

(* Checker.get_errors over the function rules: rule results in order; noqa_of row = the codes of the noqa comment on that row *)
Fixpoint drive (noqa_of : nat -> list string) (reported : list err) (l : list err) : list err :=
  match l with
  | [] => []
  | e :: t => if existsb (key_eqb e) reported then drive noqa_of reported t
              else if suppressed (noqa_of (e_row e)) e then drive noqa_of reported t
              else e :: drive noqa_of (e :: reported) t
  end.
Definition get_errors (noqa_of : nat -> list string) (func_errors module_errors : list err) : list err :=
  drive noqa_of [] func_errors ++ module_errors.

(* Extractor._ensure_node_info: a token that still carries a sentinel gets the position of the node it was produced for *)
Record tok := { t_line : nat; t_col : nat }.
Definition ensure_node_info (t : tok) (node_line node_col : nat) : tok :=
  {| t_line := if Nat.eqb (t_line t) DEFAULT_LINE then node_line else t_line t;
     t_col := if Nat.eqb (t_col t) DEFAULT_COL then node_col else t_col t |}.

(* LintCommand.__call__ in json mode: one printed line per error, in order; the return value (the exit status) is their number *)
Definition cli_json (render : err -> string) (errors : list err) : list string * nat := (map render errors, List.length errors).
