(* Sem/Show.v -- rendering of model observations as text, one line per case, for the correspondence check. *)
From Coq Require Import List ZArith Bool String Ascii DecimalString.
Import ListNotations.
Require Import Base.
Open Scope string_scope.

Definition nl : string := String (ascii_of_nat 10) EmptyString.
Definition show_nat (n : nat) : string := NilZero.string_of_uint (Nat.to_uint n).
Definition show_Z (z : Z) : string := NilZero.string_of_int (Z.to_int z).
Definition show_bool (b : bool) : string := if b then "1" else "0".
Fixpoint join (sep : string) (l : list string) : string :=
  match l with [] => "" | [x] => x | x :: t => x ++ sep ++ join sep t end.
Definition lines (l : list string) : string := join nl l.

(* canonical rendering of values: the Python side prints the same text *)
Fixpoint show_value (v : value) : string :=
  match v with
  | VInt z => "i" ++ show_Z z
  | VStr s => "s<" ++ s ++ ">"
  | VNone => "N"
  | VBool b => if b then "T" else "F"
  | VTuple l => "(" ++ join "," (map show_value l) ++ ")"
  | VDict l => "{" ++ join "," (map (fun kv => fst kv ++ ":" ++ show_value (snd kv)) l) ++ "}"
  | VEmpty => "E"
  | VObj n => "o" ++ show_nat n
  | VGen h => "g"
  | VCls c => "c<" ++ c ++ ">"
  end.
