(* Sem/AttachCode.v -- the statements of Contracts.attach / Contracts.attach_has (deal/_runtime/_contracts.py) as instruction lists over
   the object heap of Sem/ObjModel.v. tools/py2coq/tr_attach.py regenerates the lists on every run (Gen/Attach.v); Thm/C09/AttachRefine.v
   proves that, run by the semantics below, they are ObjModel.attach / ObjModel.attach_has for every heap, kind, validator / patcher and
   function object -- and return the function itself, touching nothing, once contracts are permanently removed.
   Contracts._ensure_wrapped stays the hand-written ObjModel.ensure_wrapped (source pinned). *)
From Coq Require Import List ZArith Bool String.
Import ListNotations.
Require Import Base Prog Sig Interp Model ObjModel.
Open Scope string_scope.

Inductive ainstr :=
| AIfRemovedReturnFunc        (* if state.removed: return func *)
| AEnsureWrapped              (* contracts = cls._ensure_wrapped(func) *)
| ASetValidatorFunction       (* validator.function = contracts.func *)
| AAppendValidator            (* getattr(contracts, contract_type).append(validator) *)
| ASetPatcher                 (* contracts.patcher = patcher *)
| AReturnWrapped.             (* return contracts.wrapped *)
Record attach_code := { a_attach : list ainstr; a_attach_has : list ainstr }.

(* `x` is the validator object (attach) or the patcher object (attach_has); `reg` the local variable `contracts`.
   None = the function does not return a callable (falls off the end, or reads `contracts` before it is assigned) *)
Fixpoint exec_attach (l : list ainstr) (removed : bool) (k : ckind) (x : nat) (h : heap) (func : nat) (reg : option nat) : option (heap * nat) :=
  match l with
  | [] => None
  | AIfRemovedReturnFunc :: t => if removed then Some (h, func) else exec_attach t removed k x h func reg
  | AEnsureWrapped :: t => let (h1, r) := ensure_wrapped h func in exec_attach t removed k x h1 func (Some r)
  | ASetValidatorFunction :: t =>
      match reg with Some r => exec_attach t removed k x (set_vfun h x (r_func (get_reg h r))) func reg | None => None end
  | AAppendValidator :: t =>
      match reg with
      | Some r => exec_attach t removed k x
                    (upd_reg h r (fun y => {| r_func := r_func y; r_wrapped := r_wrapped y; r_vals := (r_vals y ++ [(k, x)])%list; r_patcher := r_patcher y |}))
                    func reg
      | None => None end
  | ASetPatcher :: t =>
      match reg with
      | Some r => exec_attach t removed k x
                    (upd_reg h r (fun y => {| r_func := r_func y; r_wrapped := r_wrapped y; r_vals := r_vals y; r_patcher := Some x |}))
                    func reg
      | None => None end
  | AReturnWrapped :: _ => match reg with Some r => Some (h, r_wrapped (get_reg h r)) | None => None end
  end.
