(* Sem/LintExec.v -- partial execution of contracts by the linter: the tail of the template module (deal/linter/_template.py), which
   runs the *runtime* Validator on the extracted values and turns its outcome into a result, Rule._validate, which turns the result
   into a finding, and the corresponding test of the pre extractor (deal/linter/_extractors/pre.py). Hand-written; source pinned by
   tools/py2coq/tr_lintexec.py. The runtime outcome itself is the one of Validator.validate (Gen/Validators.v for the runtime
   properties); here it is the input. *)
From Coq Require Import List ZArith Bool String.
Import ListNotations.
Require Import Base.
Open Scope string_scope.

(* what running the runtime validator on (args, kwargs) did *)
Inductive outcome :=
| Accepted                                (* validate returned *)
| Rejected (args0 : option value)         (* it raised deal.ContractError; exc.args[0] if exc.args is not empty *)
| Crashed (c : string).                   (* anything else: NameError, TypeError, ... *)

(* the template: try: validate(args, kwargs) / except deal.ContractError as exc: result = False; if exc.args: result = exc.args[0] / else: result = True *)
Inductive tresult := TValue (v : value) | TRaised (c : string).
Definition template (o : outcome) : tresult :=
  match o with
  | Accepted => TValue (VBool true)
  | Rejected None => TValue (VBool false)
  | Rejected (Some v) => TValue v
  | Crashed c => TRaised c
  end.

Definition truthy (v : value) : bool :=
  match v with
  | VBool b => b | VInt z => negb (Z.eqb z 0) | VStr s => negb (String.eqb s "") | VNone => false
  | VTuple l => match l with [] => false | _ => true end | VDict l => match l with [] => false | _ => true end
  | _ => true
  end.

(* Rule._validate: the text of the finding, if any *)
Definition rule_validate (default : string) (r : tresult) : option string :=
  match r with
  | TRaised _ => None                                  (* cannot resolve contract dependencies or cannot find validator: skipped *)
  | TValue (VStr s) => Some s
  | TValue v => if truthy v then None else Some default
  end.
(* get_pre.handle_call: result is False or type(result) is str -> a token with marker = result or None *)
Definition pre_token (r : tresult) : option (option string) :=
  match r with
  | TRaised _ => None
  | TValue (VBool false) => Some None
  | TValue (VStr s) => Some (if String.eqb s "" then None else Some s)
  | TValue _ => None
  end.
Definition lint_verdict (default : string) (o : outcome) : option string := rule_validate default (template o).
Definition pre_verdict (default : string) (o : outcome) : option string :=
  match pre_token (template o) with None => None | Some None => Some default | Some (Some s) => Some s end.
