(* Sem/ScnSwitch.v -- executable scenarios over the generated switch (Gen/State.v): histories of public API calls. *)
From Coq Require Import List ZArith Bool String.
Import ListNotations.
Require Import Base Prog Interp Show State.
Open Scope string_scope.

Inductive op := OEnable | ODisable | OReset | ODisablePerm.

(* what calling the public API does (the `warn` argument is arbitrary) *)
Definition run_op (py_debug : bool) (warn : bool) (o : op) : prog unit :=
  match o with
  | OEnable => run_unit (state_enable py_debug) (set_warn warn senv0)
  | ODisable => run_unit (state_disable py_debug) (set_warn warn senv0)
  | OReset => run_unit (state_reset py_debug) senv0
  | ODisablePerm => run_unit (state_disable py_debug) (set_permament true (set_warn warn senv0))
  end.
Fixpoint hist_prog (py_debug : bool) (h : list (bool * op)) : prog (list (unit + exn)) :=
  match h with
  | [] => Ret []
  | (wn, o) :: t => r <- catch (run_op py_debug wn o) ;; rs <- hist_prog py_debug t ;; Ret (r :: rs)
  end.

(* a fresh _State() followed by the history; observation = outcome of each call + final (debug, removed) *)
Definition show_outcome (r : unit + exn) : string :=
  match r with
  | inl _ => "ok"
  | inr e => c_name (e_cls e) ++ (if Nat.eqb (e_id e) 0 then "!" else "?") ++
             match e_args e with [VStr m] => m | _ => "" end
  end.
Definition show_hist (py_debug : bool) (h : list op) : string :=
  match interp (fun _ => None) 0 (run_unit (state_init py_debug) senv0 ;;; hist_prog py_debug (map (fun o => (false, o)) h)) w_init with
  | Done (inl rs) w => join "," (map show_outcome rs) ++ "|" ++ show_bool (debug (wst w)) ++ show_bool (removed (wst w))
  | _ => "<stuck>"
  end.
