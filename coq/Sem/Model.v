(* Sem/Model.v -- the vocabulary of deal's runtime objects (validators, patchers, contract registries) in which
   the generated definitions (Gen/Validators.v, Gen/HasPatcher.v, Gen/Contracts.v, ...) are written, plus the few
   pieces modelled by hand: calling a user validator and the mode selection of Validator.init. *)
From Coq Require Import List ZArith Bool String.
Import ListNotations.
Require Import Base Prog Sig.
Open Scope string_scope.

Definition first_arg (l : list value) : value := match l with v :: _ => v | [] => VNone end.
Definition is_none (v : value) : bool := match v with VNone => true | _ => false end.
Definition is_some {X} (o : option X) := match o with Some _ => true | None => false end.
Definition opt_is_none {X} (o : option X) := match o with Some _ => false | None => true end.
Definition is_str (v : value) : bool := match v with VStr _ => true | _ => false end.   (* type(v) is str *)
Definition as_dict (v : value) : pkwargs := match v with VDict l => l | _ => [] end.
Definition has_key {X} (n : string) (l : list (string * X)) := is_some (lookup n l).

(* which method Validator.init installs as `validate` (hand-modelled from Validator.init / RaisesValidator.init;
   the vaa branch is outside the model: validators are plain callables) *)
Inductive vmode := MExplicit | MShort | MRaises.
Inductive vclass := VCPlain | VCRaises | VCReason | VCInvariant.

Record validator := {
  v_id : vid;
  v_class : vclass;
  v_exception : excspec;                 (* self.exception after __init__ *)
  v_message : value;                     (* self.message: VNone or VStr *)
  v_vsig : sig;                          (* signature of the raw validator *)
  v_raw : value -> prog value;           (* the user's validator, applied to the dict of its own parameters *)
  v_function : option fid;               (* self.function *)
  v_fsig : option sig;                   (* signature of self.function *)
  v_exceptions : list cls;               (* RaisesValidator.exceptions *)
  v_event : cls                          (* ReasonValidator.event *)
}.
Definition is_short_sig (s : sig) : bool :=
  match s with [p] => String.eqb (p_name p) "_" | _ => false end.   (* set(parameters) == {'_'} *)
Definition v_mode (v : validator) : vmode :=
  match v_class v with
  | VCRaises => MRaises
  | _ => if is_short_sig (v_vsig v) then MShort else MExplicit
  end.
(* self.signature after init() *)
Definition v_signature (v : validator) : option sig :=
  match v_mode v with
  | MRaises => v_fsig v
  | MShort => v_fsig v
  | MExplicit => Some (v_vsig v)
  end.

Definition type_error (msg : string) : exn := mk_exn TypeErrorC [VStr msg].
(* self.validator( *args, **kwargs): Python binds the arguments to the validator's own parameters *)
Definition call_raw (v : validator) (a : pargs) (k : pkwargs) : prog value :=
  match call_bind (v_vsig v) a k with
  | Some b => log (EvValidator (v_id v) (VDict b)) ;;; v_raw v (VDict b)
  | None => raise_new (type_error "validator arguments")
  end.
(* self.validator(AttrDict(params)) *)
Definition call_raw_short (v : validator) (params : pkwargs) : prog value :=
  log (EvValidator (v_id v) (VDict params)) ;;; v_raw v (VDict [("_", VDict params)]).
(* signature.bind( *args, **kwargs).arguments, or TypeError *)
Definition sig_bind (s : option sig) (a : pargs) (k : pkwargs) : prog binding :=
  match s with
  | None => raise_new (type_error "no signature")
  | Some s => match bind_arguments s a k with Some b => Ret b | None => raise_new (type_error "missing a required argument") end
  end.
Definition sig_defaults (s : option sig) (b : binding) : binding :=
  match s with Some s => apply_defaults s b | None => b end.

(* HasPatcher *)
Record patcher := { p_id : pid; p_markers : list string; p_message : value; p_exception : excspec }.
Definition has_marker (m : string) (p : list string) : bool := existsb (String.eqb m) p.

(* Contracts *)
Record contracts := {
  c_func : fid;
  c_pres : list validator; c_posts : list validator; c_ensures : list validator;
  c_examples : list validator; c_raises : list validator; c_reasons : list validator;
  c_patcher : option patcher
}.
Definition contracts0 (f : fid) : contracts :=
  {| c_func := f; c_pres := []; c_posts := []; c_ensures := []; c_examples := []; c_raises := []; c_reasons := []; c_patcher := None |}.

(* constructing exception objects: exception( *args) / ContractError subclass(message=..., ...) *)
Definition new_contract_error (c : cls) (message : value) (errors : value) (v : option vid)
           (params : option pkwargs) (origin : option fid) : prog exn :=
  let msg := match message with VStr s => s | _ => "" end in
  fresh_exn {| e_cls := c; e_id := 0;
               e_args := ((if truthy message then [message] else []) ++ (if truthy errors then [errors] else []))%list;
               e_cause := None; e_ctx := None;
               e_deal := Some {| d_message := msg; d_has_errors := truthy errors;
                                 d_params := match params with Some p => p | None => [] end;
                                 d_origin := origin; d_validator := v |} |}.
Definition new_exception (c : cls) (args : list value) : prog exn := fresh_exn (mk_exn c args).
(* an exception *instance* stored in a contract is one object: raising it twice raises the same object *)
Definition stored_instance (owner : nat) (c : cls) (args : list value) : exn := with_id (mk_exn c args) (2 * (S owner)).

Definition validator0 : validator :=
  {| v_id := 0; v_class := VCPlain; v_exception := EClass ContractErrorC; v_message := VNone; v_vsig := [];
     v_raw := fun _ => Ret (VBool true); v_function := None; v_fsig := None; v_exceptions := []; v_event := ExceptionC |}.
