(* Sem/Scenario.v -- executable scenarios: user code (validators, bodies) from a small AST, functions decorated with
   contract stacks, a driver of top-level actions, and the observation text compared with the implementation.
   The wrappers are the generated ones (Gen/Contracts.v); everything user-level is interpreted here. *)
From Coq Require Import List ZArith Bool String Ascii.
Import ListNotations.
Require Import Base Prog Sig Interp InterpFacts Model Show State ScnSwitch Validators HasPatcher Contracts Dispatch.
Open Scope string_scope.

(* ---------- expressions ---------- *)
Inductive binop := OGt | OGe | OEq | ONe | OAdd | OSub | OAnd | OOr.
Inductive expr :=
| EConst (v : value)
| EVar (n : string)                  (* a parameter / local *)
| EAttr (n : string)                 (* _.n  (short validators) *)
| EBin (o : binop) (a b : expr)
| ENot (a : expr) | ELen (a : expr) | EIsNone (a : expr)
| EOrMsg (a : expr) (msg : string)   (* a or "msg" *)
| ERaise (c : cls) (tag : Z)         (* raises c(tag) *)
| ELocals.                           (* dict(locals()) *)

Definition NameErrorC := under_exception "NameError" [].
(* user code evaluating `C(tag)`: a ContractError subclass takes its first argument as the message *)
Definition user_exn (c : cls) (tag : Z) : prog exn :=
  let base := mk_exn c [VInt tag] in
  let e0 := if subclass_of c "ContractError"
            then {| e_cls := c; e_id := 0; e_args := [VInt tag]; e_cause := None; e_ctx := None;
                    e_deal := Some {| d_message := show_Z tag; d_has_errors := false; d_params := []; d_origin := None; d_validator := None |} |}
            else base in
  e <- fresh_exn e0 ;; log (EvRaised tag (e_id e)) ;;; Ret e.
Definition as_int (v : value) : option Z := match v with VInt z => Some z | VBool b => Some (if b then 1 else 0)%Z | _ => None end.
Definition py_eq (a b : value) : bool :=
  match as_int a, as_int b with
  | Some x, Some y => Z.eqb x y
  | _, _ => value_eqb a b
  end.
Definition type_err {A} : prog A := raise_new (type_error "unsupported operand").

Fixpoint eval (env : binding) (e : expr) : prog value :=
  match e with
  | EConst v => Ret v
  | EVar n => match lookup n env with Some v => Ret v | None => raise_new (mk_exn NameErrorC [VStr n]) end
  | EAttr n => match lookup "_" env with
               | Some (VDict d) => match lookup n d with Some v => Ret v | None => raise_new (mk_exn KeyErrorC [VStr n]) end
               | _ => raise_new (mk_exn NameErrorC [VStr "_"]) end
  | EBin OAnd a b => x <- eval env a ;; if truthy x then eval env b else Ret x
  | EBin OOr a b => x <- eval env a ;; if truthy x then Ret x else eval env b
  | EBin o a b =>
      x <- eval env a ;; y <- eval env b ;;
      match o with
      | OEq => Ret (VBool (py_eq x y))
      | ONe => Ret (VBool (negb (py_eq x y)))
      | _ => match as_int x, as_int y with
             | Some i, Some j =>
                 Ret (match o with OGt => VBool (Z.ltb j i) | OGe => VBool (Z.leb j i) | OAdd => VInt (i + j) | _ => VInt (i - j) end)
             | _, _ => type_err
             end
      end
  | ENot a => x <- eval env a ;; Ret (VBool (negb (truthy x)))
  | ELen a => x <- eval env a ;;
              match x with
              | VTuple l => Ret (VInt (Z.of_nat (List.length l)))
              | VDict l => Ret (VInt (Z.of_nat (List.length l)))
              | VStr s => Ret (VInt (Z.of_nat (String.length s)))
              | _ => type_err end
  | EIsNone a => x <- eval env a ;; Ret (VBool (is_none x))
  | EOrMsg a msg => x <- eval env a ;; if truthy x then Ret x else Ret (VStr msg)
  | ERaise c tag => x <- user_exn c tag ;; Raise x
  | ELocals => Ret (VDict env)
  end.

(* ---------- body scripts ---------- *)
Inductive bstmt :=
| BReturn (e : expr)
| BRaise (c : cls) (tag : Z)
| BEffect (k : effkind)
| BCall (f : fid) (args : list expr) (kws : list (string * expr))   (* r = f(...) *)
| BYield (e : expr)                                                  (* sent = yield e *)
| BAwait
| BSwitch (o : op)
| BIf (c : expr) (t e : list bstmt)
| BAssign (n : string) (e : expr)
| BTryExcept (b : list bstmt) (c : string) (h : list bstmt)
| BTryFinally (b f : list bstmt).

Definition stream_of (k : effkind) (w : st) : stream := match k with KOut => s_out w | KErr => s_err w | KSock => s_sock w end.
Definition do_effect (k : effkind) : prog unit :=
  s <- get (stream_of k) ;;
  match s with
  | Real => log (EvEffect k)
  | Patched p x => log (EvBlocked k p) ;;; raise_spec p x
  end.
Fixpoint eval_list (env : binding) (l : list expr) : prog (list value) :=
  match l with [] => Ret [] | e :: t => v <- eval env e ;; vs <- eval_list env t ;; Ret (v :: vs) end.
Fixpoint eval_kws (env : binding) (l : list (string * expr)) : prog pkwargs :=
  match l with [] => Ret [] | (n, e) :: t => v <- eval env e ;; vs <- eval_kws env t ;; Ret ((n, v) :: vs) end.
Definition on_resume (r : resume) (k : value -> prog (ctrl value * binding)) : prog (ctrl value * binding) :=
  match r with Send v => k v | Throw ex => Raise ex | Close => Raise generator_exit end.

Definition bs := stmt binding value.
Fixpoint exec (s : bstmt) : bs :=
  match s with
  | BReturn e => s_return (fun env => eval env e)
  | BRaise c tag => s_raise (fun _ => user_exn c tag)
  | BEffect k => s_do (fun _ => do_effect k)
  | BCall f args kws => s_assign (fun v env => upd env "r" v)
                          (fun env => a <- eval_list env args ;; k <- eval_kws env kws ;; call_decorated f a k)
  | BYield e => fun env => v <- eval env e ;; Yield v (fun r => on_resume r (fun x => Ret (CNormal, upd env "sent" x)))
  | BAwait => fun env => Yield VNone (fun r => on_resume r (fun _ => Ret (CNormal, env)))
  | BSwitch o => s_do (fun _ => run_op true false o)
  | BIf c t e => s_if (fun env => v <- eval env c ;; Ret (truthy v))
                      ((fix go (l : list bstmt) : bs := match l with [] => s_skip | x :: r => s_seq (exec x) (go r) end) t)
                      ((fix go (l : list bstmt) : bs := match l with [] => s_skip | x :: r => s_seq (exec x) (go r) end) e)
  | BAssign n e => s_assign (fun v env => upd env n v) (fun env => eval env e)
  | BTryExcept b c h =>
      s_try ((fix go (l : list bstmt) : bs := match l with [] => s_skip | x :: r => s_seq (exec x) (go r) end) b)
            [((fun ex => isinstance ex c), None,
              fun _ => (fix go (l : list bstmt) : bs := match l with [] => s_skip | x :: r => s_seq (exec x) (go r) end) h)]
  | BTryFinally b f =>
      s_finally ((fix go (l : list bstmt) : bs := match l with [] => s_skip | x :: r => s_seq (exec x) (go r) end) b)
                ((fix go (l : list bstmt) : bs := match l with [] => s_skip | x :: r => s_seq (exec x) (go r) end) f)
  end.
Fixpoint exec_block (l : list bstmt) : bs := match l with [] => s_skip | x :: r => s_seq (exec x) (exec_block r) end.

(* ---------- scenario functions ---------- *)
Record sval := { sv_id : vid; sv_sig : sig; sv_expr : expr; sv_msg : value; sv_exc : option excspec }.
Inductive citem :=
| CPre (v : sval) | CPost (v : sval) | CEnsure (v : sval)
| CRaises (id : vid) (excs : list cls) (msg : value) (exc : option excspec)
| CReason (event : cls) (v : sval)
| CHas (id : pid) (markers : list string) (msg : value) (exc : option excspec).
Record sfun := { sf_name : fid; sf_kind : fkind; sf_sig : sig; sf_stack : list citem; sf_body : list bstmt }.

(* run a definition-time (state-free) generated function *)
Definition pure_of {A} (p : prog A) (d : A) : A := match run_simple p st0 with Some (inl a, _) => a | _ => d end.

Definition PreContractErrorC := deal_err "PreContractError".
Definition PostContractErrorC := deal_err "PostContractError".
Definition RaisesContractErrorC := deal_err "RaisesContractError".
Definition ReasonContractErrorC := deal_err "ReasonContractError".

Definition mk_validator (f : sfun) (k : vclass) (default : cls) (v : sval) (excs : list cls) (event : cls) : validator :=
  let me := pure_of (ValidatorInit.run (sv_msg v) (match sv_exc v with Some x => x | None => EClass default end))
                    (VNone, EClass default) in
  {| v_id := sv_id v; v_class := k; v_exception := snd me; v_message := fst me; v_vsig := sv_sig v;
     v_raw := fun b => eval (as_dict b) (sv_expr v);
     v_function := Some (sf_name f); v_fsig := Some (sf_sig f); v_exceptions := excs; v_event := event |}.
Definition raises_sval (id : vid) (msg : value) (exc : option excspec) : sval :=
  {| sv_id := id; sv_sig := []; sv_expr := EConst VNone; sv_msg := msg; sv_exc := exc |}.

(* the registry reached by applying the stack (innermost first): Contracts.attach / attach_has *)
Definition attach_item (f : sfun) (c : contracts) (i : citem) : contracts :=
  match i with
  | CPre v => {| c_func := c_func c; c_pres := (c_pres c ++ [mk_validator f VCPlain PreContractErrorC v [] ExceptionC])%list; c_posts := c_posts c; c_ensures := c_ensures c; c_examples := c_examples c; c_raises := c_raises c; c_reasons := c_reasons c; c_patcher := c_patcher c |}
  | CPost v => {| c_func := c_func c; c_pres := c_pres c; c_posts := (c_posts c ++ [mk_validator f VCPlain PostContractErrorC v [] ExceptionC])%list; c_ensures := c_ensures c; c_examples := c_examples c; c_raises := c_raises c; c_reasons := c_reasons c; c_patcher := c_patcher c |}
  | CEnsure v => {| c_func := c_func c; c_pres := c_pres c; c_posts := c_posts c; c_ensures := (c_ensures c ++ [mk_validator f VCPlain PostContractErrorC v [] ExceptionC])%list; c_examples := c_examples c; c_raises := c_raises c; c_reasons := c_reasons c; c_patcher := c_patcher c |}
  | CRaises id excs msg exc => {| c_func := c_func c; c_pres := c_pres c; c_posts := c_posts c; c_ensures := c_ensures c; c_examples := c_examples c; c_raises := (c_raises c ++ [mk_validator f VCRaises RaisesContractErrorC (raises_sval id msg exc) excs ExceptionC])%list; c_reasons := c_reasons c; c_patcher := c_patcher c |}
  | CReason ev v => {| c_func := c_func c; c_pres := c_pres c; c_posts := c_posts c; c_ensures := c_ensures c; c_examples := c_examples c; c_raises := c_raises c; c_reasons := (c_reasons c ++ [mk_validator f VCReason ReasonContractErrorC v [] ev])%list; c_patcher := c_patcher c |}
  | CHas id markers msg exc =>
      {| c_func := c_func c; c_pres := c_pres c; c_posts := c_posts c; c_ensures := c_ensures c; c_examples := c_examples c; c_raises := c_raises c; c_reasons := c_reasons c;
         c_patcher := Some {| p_id := id; p_markers := markers; p_message := msg; p_exception := pure_of (PatcherInit.run msg exc) (EClass MarkerErrorC) |} |}
  end.
Definition build_contracts (f : sfun) : contracts := fold_left (attach_item f) (sf_stack f) (contracts0 (sf_name f)).

Definition LF := 40.   (* fuel of the generated `while True` / yield-from loops *)
Definition body_of (f : sfun) (a : pargs) (k : pkwargs) : prog value :=
  match call_bind (sf_sig f) a k with
  | Some b => log (EvBound (sf_name f) b) ;;; r <- exec_block (sf_body f) b ;; Ret (ret_of r)
  | None => raise_new (type_error "call arguments")
  end.
Definition fdef_of (f : sfun) : fdef :=
  {| f_kind := sf_kind f;
     f_wrapper := match sf_stack f with
                  | [] => fun a k => match sf_kind f with
                                     | KGen => g <- call_func (sf_name f) a k ;; yield_from LF g
                                     | _ => call_func (sf_name f) a k end
                  | _ => wrapper LF (sf_kind f) (build_contracts f)
                  end;
     f_body := body_of f;
     f_accepts := fun a k => match sf_stack f with [] => is_some (call_bind (sf_sig f) a k) | _ => true end;
     f_binds := fun a k => is_some (call_bind (sf_sig f) a k) |}.
Fixpoint ftab_of (fs : list sfun) (n : fid) : option fdef :=
  match fs with [] => None | f :: t => if String.eqb (sf_name f) n then Some (fdef_of f) else ftab_of t n end.
(* dispatchers: deal.dispatch objects with their registered implementations *)
Definition contracts_of_tab (fs : list sfun) (n : fid) : option fid :=
  match find (fun f => String.eqb (sf_name f) n) fs with
  | Some f => match sf_stack f with [] => None | _ => Some n end
  | None => None end.
Definition ftab_with (fs : list sfun) (ds : list (fid * list fid)) (n : fid) : option fdef :=
  match lookup n ds with
  | Some impls => Some {| f_kind := KSync; f_wrapper := DispatchCall.run (contracts_of_tab fs) {| d_functions := impls |};
                          f_body := fun _ _ => Ret VNone; f_accepts := fun _ _ => true; f_binds := fun _ _ => true |}
  | None => ftab_of fs n
  end.

(* ---------- driver ---------- *)
Inductive action :=
| ACall (f : fid) (a : pargs) (k : pkwargs)
| AGenNew (var : nat) (f : fid) (a : pargs) (k : pkwargs)
| ACoNew (var : nat) (f : fid) (a : pargs) (k : pkwargs)
| ANext (var : nat) | ASend (var : nat) (v : value) | AThrow (var : nat) (c : cls) (tag : Z) | AClose (var : nat)
| ASwitch (o : op).

Inductive outcome := ORet (v : value) | OExc (e : exn) | OYield (v : value) | OStop (v : value).
Definition of_gen_res (r : gen_res) : outcome := match r with GYield v => OYield v | GStop v => OStop v | GRaise e => OExc e end.
Definition gvar (vars : list (nat * value)) (n : nat) : value := match nlookup n vars with Some v => v | None => VNone end.
Definition has_var (vars : list (nat * value)) (n : nat) : bool := match nlookup n vars with Some _ => true | None => false end.
Definition no_var : outcome := OExc (mk_exn KeyErrorC []).

Definition do_action (vars : list (nat * value)) (a : action) : prog (outcome * list (nat * value)) :=
  match a with
  | ACall f a k => r <- trigger (Call f a k) ;; Ret (match r with inl v => ORet v | inr e => OExc e end, vars)
  | AGenNew x f a k => r <- trigger (Call f a k) ;;
                       Ret (match r with inl v => (ORet (VGen 0), nupd vars x v) | inr e => (OExc e, vars) end)
  | ACoNew x f a k => h <- trigger (Spawn f a k) ;; Ret (ORet (VGen 0), nupd vars x h)
  | ANext x => if has_var vars x then r <- gen_step (gvar vars x) (Send VNone) ;; Ret (of_gen_res r, vars) else Ret (no_var, vars)
  | ASend x v => if has_var vars x then r <- gen_step (gvar vars x) (Send v) ;; Ret (of_gen_res r, vars) else Ret (no_var, vars)
  | AThrow x c tag => if has_var vars x then e <- user_exn c tag ;; r <- gen_step (gvar vars x) (Throw e) ;; Ret (of_gen_res r, vars) else Ret (no_var, vars)
  | AClose x => if negb (has_var vars x) then Ret (no_var, vars) else r <- gen_step (gvar vars x) Close ;;
                Ret (match r with GStop _ => ORet VNone | GRaise e => OExc e | GYield v => OYield v end, vars)
  | ASwitch o => r <- catch (run_op true false o) ;; Ret (match r with inl _ => ORet VNone | inr e => OExc e end, vars)
  end.
Fixpoint drive (vars : list (nat * value)) (l : list action) : prog (list (outcome * st)) :=
  match l with
  | [] => Ret []
  | a :: t => r <- do_action vars a ;; s <- get (fun w => w) ;; rest <- drive (snd r) t ;; Ret ((fst r, s) :: rest)
  end.

Record scenario := { sc_funs : list sfun; sc_dispatch : list (fid * list fid); sc_driver : list action }.
Definition FUEL := 60.
(* the top level behaves like an event loop that resumes a suspended coroutine at once *)
Fixpoint pump (ftab : fid -> option fdef) (n : nat) {A} (r : res A) : res A :=
  match n with
  | O => r
  | S m => match r with
           | Susp _ k w => pump ftab m (interp ftab FUEL (k (Send VNone)) w)
           | _ => r end
  end.
Definition run_scenario (sc : scenario) : res (list (outcome * st)) :=
  let tab := ftab_with (sc_funs sc) (sc_dispatch sc) in pump tab 30 (interp tab FUEL (drive [] (sc_driver sc)) w_init).

(* ---------- observation text ---------- *)
Definition show_kind (k : effkind) := match k with KOut => "out" | KErr => "err" | KSock => "sock" end.
Definition show_args (l : list value) := "[" ++ join "," (map show_value l) ++ "]".
Fixpoint insert_sorted (kv : string * value) (l : list (string * value)) : list (string * value) :=
  match l with
  | [] => [kv]
  | x :: t => if String.leb (fst kv) (fst x) then kv :: l else x :: insert_sorted kv t
  end.
Definition sort_dict (l : list (string * value)) := fold_right insert_sorted [] l.
Definition show_dict (l : list (string * value)) := "{" ++ join "," (map (fun kv => fst kv ++ ":" ++ show_value (snd kv)) (sort_dict l)) ++ "}".
Definition show_recv (v : value) := match v with VDict l => show_dict l | _ => show_value v end.
Definition show_event (e : event) : list string :=
  match e with
  | EvBody _ _ _ => []
  | EvBound f b => ["B " ++ f ++ " " ++ show_dict b]
  | EvValidator v r => ["V " ++ show_nat v ++ " " ++ show_recv r]
  | EvEffect k => ["E " ++ show_kind k]
  | EvBlocked k _ => ["K " ++ show_kind k]
  | EvForeign t => ["F " ++ show_nat t]
  | EvResume _ => []
  | EvRaised _ _ => []
  end.
Fixpoint tag_of_id (tr : list event) (id : nat) : option Z :=
  match tr with
  | [] => None
  | EvRaised t i :: r => if Nat.eqb i id then Some t else tag_of_id r id
  | _ :: r => tag_of_id r id
  end.
Definition show_rel (tr : list event) (o : option nat) : string :=
  match o with None => "-" | Some id => match tag_of_id tr id with Some t => "t" ++ show_Z t | None => "o" end end.
Definition show_exn (tr : list event) (e : exn) : string :=
  let tag := match e_args e with [VInt t] => match tag_of_id tr (e_id e) with Some t' => if Z.eqb t t' then show_Z t else "-" | None => "-" end | _ => "-" end in
  "X " ++ c_name (e_cls e) ++ " tag=" ++ tag ++
  match e_deal e with
  | Some d => " msg=<" ++ d_message d ++ "> params=" ++ show_dict (d_params d) ++
              " origin=" ++ match d_origin d with Some f => f | None => "-" end
  | None => " args=" ++ (if (isinstance e "TypeError" || isinstance e "NameError" || isinstance e "KeyError") && String.eqb tag "-"
                          then "*" else show_args (e_args e))
  end ++ " cause=" ++ show_rel tr (e_cause e) ++ " ctx=" ++ (let c := show_rel tr (e_ctx e) in if String.eqb c "o" then "-" else c).
Definition show_outcome (tr : list event) (o : outcome) : string :=
  match o with
  | ORet v => "R " ++ show_value v
  | OYield v => "Y " ++ show_value v
  | OStop v => "STOP " ++ show_value v
  | OExc e => show_exn tr e
  end.
Definition show_snapshot (s : st) : string :=
  "S " ++ show_bool (debug s) ++ show_bool (removed s) ++ show_bool (is_real (s_out s)) ++ show_bool (is_real (s_err s)) ++ show_bool (is_real (s_sock s)).
Fixpoint show_steps (seen : nat) (l : list (outcome * st)) : list string :=
  match l with
  | [] => []
  | (o, s) :: t =>
      (List.concat (map show_event (skipn seen (trace s))) ++ [show_outcome (trace s) o; show_snapshot s])%list ++ show_steps (List.length (trace s)) t
  end.
Definition show_scenario (sc : scenario) : string :=
  match run_scenario sc with
  | Done (inl l) _ => join "|" (show_steps 0 l)
  | Done (inr e) _ => "<driver raised " ++ c_name (e_cls e) ++ ">"
  | Susp _ _ _ => "<driver suspended>"
  | OutOfFuel => "<out of fuel>"
  end.
