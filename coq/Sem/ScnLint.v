(* Sem/ScnLint.v -- evaluation entry point of the C18 correspondence: the findings of the model for every function of a module *)
From Coq Require Import List Bool String.
Import ListNotations.
Require Import Base Show LintModel.
Open Scope string_scope.
Local Open Scope list_scope.

(* one line per function:  name|raises findings|marker findings|extracted exceptions|extracted markers|stub raises|stub has *)
Definition show_func (t : ftab) (use_stubs : bool) (nf : string * lfunc) : string :=
  let f := snd nf in
  (fst nf ++ "|" ++ join "," (check_raises t use_stubs f) ++ "|" ++ join "," (check_markers t use_stubs f)
   ++ "|" ++ join "," (map c_name (get_exceptions t false (l_body f))) ++ "|" ++ join "," (get_markers t false (l_body f))
   ++ "|" ++ join "," (fst (stub_of t (l_body f))) ++ "|" ++ join "," (snd (stub_of t (l_body f))))%string.
Definition show_module (t : ftab) (use_stubs : bool) (fs : list (string * lfunc)) : string := lines (map (show_func t use_stubs) fs).
