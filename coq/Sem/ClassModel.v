(* Sem/ClassModel.v -- deal.inherit on a class table: which contracts Inherit._patch merges into an overriding method.
   Hand-written from deal/_runtime/_inherit.py (source pinned by Gen/ObjPin.v); tied to the code by the C11 family. *)
From Coq Require Import List Bool String.
Import ListNotations.
Require Import Base Mro Show.
Open Scope string_scope.

(* a method definition in a class body: the ids of the contracts written on it (in application order), and whether it is
   marked with deal.inherit *)
Record mdef := { m_contracts : list nat; m_inherit : bool }.
Record cdef := { c_cname : string; c_bases : list string; c_methods : list (string * mdef) }.
Definition class_table := list cdef.
Definition hierarchy (t : class_table) := map (fun c => (c_cname c, c_bases c)) t.
Definition find_class (t : class_table) (n : string) : option cdef := find (fun c => String.eqb (c_cname c) n) t.

(* getattr(cls, name): the first definition along cls.mro() -- returns the defining class *)
Definition resolve (t : class_table) (cls name : string) : option (string * mdef) :=
  let fix go (l : list string) :=
    match l with
    | [] => None
    | c :: rest => match find_class t c with
                   | Some d => match lookup name (c_methods d) with Some m => Some (c, m) | None => go rest end
                   | None => go rest end
    end in go (mro_of (hierarchy t) cls).

(* the registry of the method found on a class, as enforced: for a method marked inherit, its own contracts followed by what
   _patch merges: for base in mro()[1:], the registry of getattr(base, name) if it is contracted -- itself patched first when
   that ancestor method is marked inherit too (getattr goes through Inherit.__get__) *)
Fixpoint enforced_n (fuel : nat) (t : class_table) (cls name : string) : list nat :=
  match fuel with
  | O => []
  | S n =>
      match resolve t cls name with
      | None => []
      | Some (owner, m) =>
          if m_inherit m
          then (m_contracts m ++
                List.concat (map (fun base => match resolve t base name with Some (o2, _) => enforced_n n t o2 name | None => [] end)
                                 (tl (mro_of (hierarchy t) owner))))%list
          else m_contracts m
      end
  end.
Definition enforced (t : class_table) (cls name : string) : list nat := enforced_n 12 t cls name.
Definition show_enforced (t : class_table) (q : string * string) : string :=
  fst q ++ "." ++ snd q ++ "=" ++ join "," (map show_nat (enforced t (fst q) (snd q))) ++ " mro=" ++ join ">" (mro_of (hierarchy t) (fst q)).
