(* Sem/InvModel.v -- class invariants: what InvariantedClass.__setattr__ / __getattribute__ / _deal_patched_method / _deal_validate
   do to an instance over a history of operations. Hand-written from deal/_runtime/_invariant.py (source pinned by Gen/ObjPin.v);
   tied to the code by the C05 family. The instance is its attribute dictionary (vars(obj)) over class-level defaults. *)
From Coq Require Import List ZArith Bool String.
Import ListNotations.
Require Import Base Show.
Open Scope string_scope.

Definition attrs := list (string * value).
Inductive vres := VTrue | VFalse | VRaise (c : string).
(* an invariant sees the instance: explicit form reads attributes through the object (instance dict first, then class
   attributes); the `_` form is handed vars(obj) only *)
Inductive iform := IExplicit | IShort.
Inductive ipred := PGe (a : string) (k : Z) | PLe (a : string) (k : Z) | PSumGe (a b : string) (k : Z).
Record inv := { i_form : iform; i_pred : ipred }.
Definition geti (form : iform) (cls inst : attrs) (n : string) : option value :=
  match lookup n inst with
  | Some v => Some v
  | None => match form with IExplicit => lookup n cls | IShort => None end
  end.
Definition missing (form : iform) : vres := VRaise (match form with IExplicit => "AttributeError" | IShort => "KeyError" end).
Definition eval_inv (cls inst : attrs) (i : inv) : vres :=
  let g := geti (i_form i) cls inst in
  let num n := match g n with Some (VInt z) => Some z | _ => None end in
  match i_pred i with
  | PGe a k => match g a with None => missing (i_form i) | Some (VInt z) => if Z.leb k z then VTrue else VFalse | Some _ => VRaise "TypeError" end
  | PLe a k => match g a with None => missing (i_form i) | Some (VInt z) => if Z.leb z k then VTrue else VFalse | Some _ => VRaise "TypeError" end
  | PSumGe a b k => match g a, g b with
                    | None, _ | _, None => missing (i_form i)
                    | Some (VInt x), Some (VInt y) => if Z.leb k (x + y) then VTrue else VFalse
                    | _, _ => VRaise "TypeError" end
  end.
(* _deal_validate: the invariants in order (stacked deal.inv: innermost first), stop at the first that does not hold *)
Fixpoint validate_all (cls inst : attrs) (l : list inv) : vres :=
  match l with
  | [] => VTrue
  | i :: t => match eval_inv cls inst i with VTrue => validate_all cls inst t | r => r end
  end.

(* richer method bodies: besides assignments through self, changes of the state that no __setattr__ sees (self.__dict__[n] = v, or an
   in-place change such as self.items.append(..): stored, not validated) and calls of another method through self (a nested patched
   method: validated at its entry and at its exit; its body: stores that are raw or go through __setattr__, then raise or return) *)
Definition iitem := (bool * (string * value))%type.            (* (raw?, (name, value)) *)
Inductive bitem :=
| BSet (n : string) (v : value)
| BRaw (n : string) (v : value)
| BInner (items : list iitem) (raises : bool).
Inductive iop :=
| OSet (n : string) (v : value)                                   (* obj.n = v *)
| OCall (sets : list (string * value)) (raises : bool) (ret : Z)  (* an instance method: assignments through self, then raise or return *)
| OStatic (ret : Z)                                               (* static / class method, property or plain attribute read *)
| OSwitch (enable : bool)                                         (* deal.enable() / deal.disable() *)
| OCallB (body : list bitem) (raises : bool) (ret : Z).          (* an instance method with a richer body (see bitem) *)
Inductive outcome := Ok (ret : value) | InvError | Exc (c : string).
Definition of_vres (r : vres) : option outcome := match r with VTrue => None | VFalse => Some InvError | VRaise c => Some (Exc c) end.

Record istate := { s_inst : attrs; s_enabled : bool }.
Definition check (cls : attrs) (invs : list inv) (s : istate) : option outcome :=
  if s_enabled s then of_vres (validate_all cls (s_inst s) invs) else None.
Definition set_attr (s : istate) (n : string) (v : value) : istate := {| s_inst := upd (s_inst s) n v; s_enabled := s_enabled s |}.
(* assignments inside a method go through __setattr__ too: store, then validate *)
Fixpoint run_sets (cls : attrs) (invs : list inv) (s : istate) (l : list (string * value)) : istate * option outcome :=
  match l with
  | [] => (s, None)
  | (n, v) :: t => let s1 := set_attr s n v in
                   match check cls invs s1 with Some o => (s1, Some o) | None => run_sets cls invs s1 t end
  end.
Fixpoint run_inner_items (cls : attrs) (invs : list inv) (s : istate) (l : list iitem) : istate * option outcome :=
  match l with
  | [] => (s, None)
  | (raw, (n, v)) :: t => let s1 := set_attr s n v in
                          if raw : bool then run_inner_items cls invs s1 t
                          else match check cls invs s1 with Some o => (s1, Some o) | None => run_inner_items cls invs s1 t end
  end.
(* self.other(): not entered when an invariant is false; validated again when it returns; an exception leaves without validation *)
Definition inner_call (cls : attrs) (invs : list inv) (s : istate) (items : list iitem) (raises : bool) : istate * option outcome :=
  match check cls invs s with
  | Some e => (s, Some e)
  | None => match run_inner_items cls invs s items with
            | (s1, Some e) => (s1, Some e)
            | (s1, None) => if raises then (s1, Some (Exc "ValueError")) else (s1, check cls invs s1)
            end
  end.
Fixpoint run_body (cls : attrs) (invs : list inv) (s : istate) (l : list bitem) : istate * option outcome :=
  match l with
  | [] => (s, None)
  | BSet n v :: t => let s1 := set_attr s n v in
                     match check cls invs s1 with Some o => (s1, Some o) | None => run_body cls invs s1 t end
  | BRaw n v :: t => run_body cls invs (set_attr s n v) t
  | BInner items raises :: t => match inner_call cls invs s items raises with
                                | (s1, Some e) => (s1, Some e)
                                | (s1, None) => run_body cls invs s1 t
                                end
  end.
Definition step (cls : attrs) (invs : list inv) (s : istate) (o : iop) : istate * outcome :=
  match o with
  | OSet n v => let s1 := set_attr s n v in (s1, match check cls invs s1 with Some e => e | None => Ok VNone end)
  | OCall sets raises ret =>
      match check cls invs s with
      | Some e => (s, e)                                     (* not entered *)
      | None => match run_sets cls invs s sets with
                | (s1, Some e) => (s1, e)
                | (s1, None) => if raises then (s1, Exc "ValueError")
                                else (s1, match check cls invs s1 with Some e => e | None => Ok (VInt ret) end)
                end
      end
  | OStatic ret => (s, Ok (VInt ret))
  | OSwitch b => ({| s_inst := s_inst s; s_enabled := b |}, Ok VNone)
  | OCallB body raises ret =>
      match check cls invs s with
      | Some e => (s, e)                                     (* not entered *)
      | None => match run_body cls invs s body with
                | (s1, Some e) => (s1, e)
                | (s1, None) => if raises then (s1, Exc "ValueError")
                                else (s1, match check cls invs s1 with Some e => e | None => Ok (VInt ret) end)
                end
      end
  end.
Fixpoint run_history (cls : attrs) (invs : list inv) (s : istate) (h : list iop) : list (outcome * attrs) :=
  match h with
  | [] => []
  | o :: t => let (s1, r) := step cls invs s o in (r, s_inst s1) :: run_history cls invs s1 t
  end.
(* construction: __init__ assigns the given attributes one by one through __setattr__ *)
Definition construct (cls : attrs) (invs : list inv) (init : list (string * value)) : istate * option outcome :=
  run_sets cls invs {| s_inst := []; s_enabled := true |} init.

Definition show_outcome_i (o : outcome) : string :=
  match o with Ok v => "ok " ++ show_value v | InvError => "InvContractError" | Exc c => "exc " ++ c end.
Fixpoint insert_s (kv : string * value) (l : attrs) : attrs :=
  match l with [] => [kv] | x :: t => if String.leb (fst kv) (fst x) then kv :: l else x :: insert_s kv t end.
Definition show_attrs (a : attrs) : string := "{" ++ join "," (map (fun kv => fst kv ++ ":" ++ show_value (snd kv)) (fold_right insert_s [] a)) ++ "}".
Definition show_history (cls : attrs) (invs : list inv) (init : list (string * value)) (h : list iop) : string :=
  match construct cls invs init with
  | (s, Some e) => "new " ++ show_outcome_i e ++ " " ++ show_attrs (s_inst s)
  | (s, None) => join "|" ("new ok" :: map (fun ra => show_outcome_i (fst ra) ++ " " ++ show_attrs (snd ra)) (run_history cls invs s h))
  end.
