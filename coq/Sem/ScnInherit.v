(* Sem/ScnInherit.v -- running the heap-level inherit model (Sem/InheritHeap.v) on a scenario and rendering what the C11 family
   compares with the implementation: after each query getattr(cls, name), the registry of the function the class resolves the
   name to (per kind, in list order) and the marker set of its patcher. *)
From Coq Require Import List Bool String Arith.
Import ListNotations.
Require Import Base Mro Interp ObjModel InheritHeap Show.
Open Scope string_scope.

Definition show_kind (vals : list (ckind * nat)) (k : ckind) : string :=
  join "," (map (fun kv => show_nat (snd kv)) (filter (fun kv => ckind_eqb (fst kv) k) vals)).
Definition MARKERS := ["network"; "stderr"; "stdout"].
Definition show_force (x : list (ckind * nat) * option (list string)) : string :=
  "pre:" ++ show_kind (fst x) KPre ++ ";post:" ++ show_kind (fst x) KPost ++ ";ensure:" ++ show_kind (fst x) KEnsure ++
  ";raises:" ++ show_kind (fst x) KRaises ++ ";has:" ++
  match snd x with None => "-" | Some m => join "," (filter (fun u => existsb (String.eqb u) m) MARKERS) end.
Fixpoint run_queries (fuel : nat) (w : world) (qs : list string) : list string :=
  match qs with
  | [] => []
  | c :: rest =>
      match getattr_n fuel w c with
      | None => ["FUEL"]
      | Some (w1, Some o) => (c ++ "=" ++ show_force (in_force (w_heap w1) o)) :: run_queries fuel w1 rest
      | Some (w1, None) => (c ++ "=none") :: run_queries fuel w1 rest
      end
  end.
Definition run_case (patchers : list (nat * list string)) (classes : list cspec) (queries : list string) : string :=
  match define_all 40 (world0 patchers) classes with
  | Some w => join "|" (run_queries 40 w queries)
  | None => "FUEL" end.
