(* Sem/ObjModel.v -- the definition phase: function objects, contract registries, validator objects as a heap; what
   Contracts.attach / attach_has / _ensure_wrapped / wrap, functools.update_wrapper, deal.chain, foreign decorators and
   introspection.get_contracts / unwrap do to it. Hand-written from deal/_runtime/_contracts.py and
   deal/introspection/_extractor.py; tools/py2coq/tr_objmodel.py pins the source text of those functions (a change there
   fails the translation) and the composition / introspection correspondence families compare it with the implementation. *)
From Coq Require Import List ZArith Bool String.
Import ListNotations.
Require Import Base Prog Sig Interp Model.
Open Scope string_scope.

Inductive ckind := KPre | KPost | KEnsure | KExample | KRaises | KReason.
Definition ckind_eqb (a b : ckind) : bool :=
  match a, b with KPre, KPre | KPost, KPost | KEnsure, KEnsure | KExample, KExample | KRaises, KRaises | KReason, KReason => true | _, _ => false end.

Inductive okind :=
| OBody (name : fid)                (* an original user function *)
| ODeal (rid : nat)                 (* the wrapper deal built over registry rid *)
| OForeign (tag : nat) (inner : nat). (* a layer added by a foreign decorator; calling it calls object inner *)
Record obj := { o_kind : okind;
                o_attr : option nat;        (* __dict__["__deal_contract"]: a registry id *)
                o_wrapped : option nat;     (* __wrapped__ *)
                o_fkind : fkind }.          (* what iscoroutinefunction / isgeneratorfunction say *)
Record reg := { r_func : nat; r_wrapped : nat;
                r_vals : list (ckind * nat);       (* (list it was appended to, validator object), in append order *)
                r_patcher : option nat }.
Record heap := { h_objs : list obj; h_regs : list reg;
                 h_vfun : list (nat * nat);         (* validator object -> the function object stored in validator.function *)
                 h_pmarkers : list (nat * list string) }.   (* patcher object -> its (mutable) marker set *)
Definition heap0 : heap := {| h_objs := []; h_regs := []; h_vfun := []; h_pmarkers := [] |}.

Definition obj0 : obj := {| o_kind := OBody ""; o_attr := None; o_wrapped := None; o_fkind := KSync |}.
Definition reg0 : reg := {| r_func := 0; r_wrapped := 0; r_vals := []; r_patcher := None |}.
Definition get_obj (h : heap) (o : nat) : obj := nth o (h_objs h) obj0.
Definition get_reg (h : heap) (r : nat) : reg := nth r (h_regs h) reg0.
Definition new_obj (h : heap) (x : obj) : heap * nat :=
  ({| h_objs := (h_objs h ++ [x])%list; h_regs := h_regs h; h_vfun := h_vfun h; h_pmarkers := h_pmarkers h |}, List.length (h_objs h)).
Fixpoint list_upd {X} (l : list X) (n : nat) (f : X -> X) : list X :=
  match l, n with [], _ => [] | x :: t, O => f x :: t | x :: t, S m => x :: list_upd t m f end.
Definition upd_reg (h : heap) (r : nat) (f : reg -> reg) : heap :=
  {| h_objs := h_objs h; h_regs := list_upd (h_regs h) r f; h_vfun := h_vfun h; h_pmarkers := h_pmarkers h |}.
Definition upd_obj (h : heap) (o : nat) (f : obj -> obj) : heap :=
  {| h_objs := list_upd (h_objs h) o f; h_regs := h_regs h; h_vfun := h_vfun h; h_pmarkers := h_pmarkers h |}.
Definition set_vfun (h : heap) (v f : nat) : heap :=
  {| h_objs := h_objs h; h_regs := h_regs h; h_vfun := nupd (h_vfun h) v f; h_pmarkers := h_pmarkers h |}.
Definition set_pmarkers (h : heap) (p : nat) (m : list string) : heap :=
  {| h_objs := h_objs h; h_regs := h_regs h; h_vfun := h_vfun h; h_pmarkers := nupd (h_pmarkers h) p m |}.

(* Contracts._ensure_wrapped: reuse the registry found on func only if func IS that registry's wrapper; otherwise build a new
   registry and a new wrapper: update_wrapper copies func.__dict__ (the attribute included) and sets __wrapped__, then the
   attribute is overwritten with the new registry *)
Definition ensure_wrapped (h : heap) (func : nat) : heap * nat :=
  let reuse := match o_attr (get_obj h func) with
               | Some r => if Nat.eqb (r_wrapped (get_reg h r)) func then Some r else None
               | None => None end in
  match reuse with
  | Some r => (h, r)
  | None =>
      let rid := List.length (h_regs h) in
      let wid := List.length (h_objs h) in
      let w := {| o_kind := ODeal rid; o_attr := Some rid; o_wrapped := Some func; o_fkind := o_fkind (get_obj h func) |} in
      ({| h_objs := (h_objs h ++ [w])%list;
          h_regs := (h_regs h ++ [{| r_func := func; r_wrapped := wid; r_vals := []; r_patcher := None |}])%list;
          h_vfun := h_vfun h; h_pmarkers := h_pmarkers h |}, rid)
  end.
(* Contracts.attach(contract_type, validator, func) / attach_has(patcher, func), contracts not removed *)
Definition attach (k : ckind) (v : nat) (h : heap) (func : nat) : heap * nat :=
  let (h1, r) := ensure_wrapped h func in
  let h2 := set_vfun h1 v (r_func (get_reg h1 r)) in
  let h3 := upd_reg h2 r (fun x => {| r_func := r_func x; r_wrapped := r_wrapped x; r_vals := (r_vals x ++ [(k, v)])%list; r_patcher := r_patcher x |}) in
  (h3, r_wrapped (get_reg h3 r)).
Definition attach_has (p : nat) (h : heap) (func : nat) : heap * nat :=
  let (h1, r) := ensure_wrapped h func in
  let h2 := upd_reg h1 r (fun x => {| r_func := r_func x; r_wrapped := r_wrapped x; r_vals := r_vals x; r_patcher := Some p |}) in
  (h2, r_wrapped (get_reg h2 r)).
(* foreign decorators *)
Definition foreign_wraps (tag : nat) (h : heap) (func : nat) : heap * nat :=
  new_obj h {| o_kind := OForeign tag func; o_attr := o_attr (get_obj h func); o_wrapped := Some func; o_fkind := KSync |}.
Definition foreign_plain (tag : nat) (h : heap) (func : nat) : heap * nat :=
  new_obj h {| o_kind := OForeign tag func; o_attr := None; o_wrapped := None; o_fkind := KSync |}.

(* one decoration step; deal.chain(c1..cn) applies c1 first *)
Inductive step := SVal (k : ckind) (v : nat) | SHas (p : nat) | SWraps (tag : nat) | SPlain (tag : nat).
Definition apply_step (hf : heap * nat) (s : step) : heap * nat :=
  match s with
  | SVal k v => attach k v (fst hf) (snd hf)
  | SHas p => attach_has p (fst hf) (snd hf)
  | SWraps t => foreign_wraps t (fst hf) (snd hf)
  | SPlain t => foreign_plain t (fst hf) (snd hf)
  end.
Definition apply_steps (h : heap) (func : nat) (l : list step) : heap * nat := fold_left apply_step l (h, func).

(* introspection.get_contracts(func): walk the __wrapped__ chain; report every registry once *)
Inductive record := RVal (k : ckind) (v : nat) | RHas (p : nat).
Definition order_records (vals : list (ckind * nat)) : list record :=
  let pick k := map (fun kv => RVal k (snd kv)) (filter (fun kv => ckind_eqb (fst kv) k) vals) in
  (pick KPre ++ pick KPost ++ pick KEnsure ++ pick KRaises ++ pick KReason ++ pick KExample)%list.
Fixpoint get_contracts (fuel : nat) (h : heap) (func : nat) (seen : list nat) : list record :=
  match fuel with
  | O => []
  | S n =>
      let o := get_obj h func in
      let (here, seen') :=
        match o_attr o with
        | Some r => if existsb (Nat.eqb r) seen then ([], seen)
                    else ((order_records (r_vals (get_reg h r)) ++ match r_patcher (get_reg h r) with Some p => [RHas p] | None => [] end)%list, r :: seen)
        | None => ([], seen)
        end in
      (here ++ match o_wrapped o with Some w => get_contracts n h w seen' | None => [] end)%list
  end.
(* introspection.unwrap(func) *)
Definition unwrap (h : heap) (func : nat) : nat :=
  match o_attr (get_obj h func) with Some r => r_func (get_reg h r) | None => func end.
