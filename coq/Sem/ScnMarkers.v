(* Sem/ScnMarkers.v -- executable marker tables for the C04 correspondence: every has_* predicate generated from
   _has_patcher.py and the linter's coverage decision generated from _rules.py, evaluated on marker sets. *)
From Coq Require Import List ZArith Bool String.
Import ListNotations.
Require Import Base Model Show HasPatcher Rules.
Open Scope string_scope.

Fixpoint powerset {X} (l : list X) : list (list X) :=
  match l with [] => [[]] | x :: t => let p := powerset t in (p ++ map (cons x) p)%list end.
Definition show_preds (M : list string) : string :=
  String.concat "" (map show_bool [has_network M; has_io M; has_stdout M; has_stderr M; has_global M; has_read M; has_stdin M; has_syscall M; has_write M])
  ++ "/" ++ String.concat "" (map (fun r => show_bool (linter_covers M (fst (fst r)))) DOC_MARKERS)
  (* the other names of a marker, as a callee / a stub can declare them *)
  ++ "/" ++ String.concat "" (map (fun r => show_bool (linter_covers M (fst r))) MARKER_ALIASES).
(* all subsets of [rest] united with [fixed] (plus optional custom markers), in powerset order *)
Definition show_shard (fixed rest : list string) : string := lines (map (fun s => show_preds (fixed ++ s)%list) (powerset rest)).
