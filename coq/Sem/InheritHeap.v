(* Sem/InheritHeap.v -- deal.inherit on the heap of function objects and registries (Sem/ObjModel.v): what Contracts.wrap,
   Inherit.wrap (the class decorator), Inherit.__get__ and Inherit._patch do to the registries, the patchers and the class
   dictionaries. Unlike Sem/ClassModel.v (which says WHICH contracts end up on a method) this model has the mutation and the
   sharing of objects, so that "nothing else changes" can be stated and proved. Hand-written from deal/_runtime/_inherit.py and
   Contracts.wrap (source pinned by tr_pin_inherit / tr_pin_contracts); tied to the code by the C11 family (ScnInherit.v). *)
From Coq Require Import List Bool String Arith.
Import ListNotations.
Require Import Base Mro Interp ObjModel.
Open Scope string_scope.

(* ---- Contracts.wrap(self, func): merge the registry src into the registry of func ---- *)
Definition markers_of (h : heap) (p : nat) : list string := match nlookup p (h_pmarkers h) with Some m => m | None => [] end.
Definition munion (a b : list string) : list string := (a ++ filter (fun x => negb (existsb (String.eqb x) a)) b)%list.
Definition fresh_p (h : heap) : nat := S (list_max (map fst (h_pmarkers h))).
(* HasPatcher(markers=...): a new patcher object *)
Definition new_patcher (h : heap) (m : list string) : heap * nat := let p := fresh_p h in (set_pmarkers h p m, p).
Definition reg_add_vals (l : list (ckind * nat)) (x : reg) : reg :=
  {| r_func := r_func x; r_wrapped := r_wrapped x; r_vals := (r_vals x ++ l)%list; r_patcher := r_patcher x |}.
Definition reg_set_patcher (p : nat) (x : reg) : reg :=
  {| r_func := r_func x; r_wrapped := r_wrapped x; r_vals := r_vals x; r_patcher := Some p |}.
Definition wrap_reg (h : heap) (src func : nat) : heap * nat :=
  let hr := ensure_wrapped h func in
  let h1 := fst hr in let r := snd hr in
  let h2 := upd_reg h1 r (reg_add_vals (r_vals (get_reg h1 src))) in
  let h3 := match r_patcher (get_reg h2 src) with
            | None => h2
            | Some ps =>
                (* origin = contracts.patcher or self.patcher; the target gets a patcher of its own *)
                let origin := match r_patcher (get_reg h2 r) with Some pt => pt | None => ps end in
                let hp := new_patcher h2 (munion (markers_of h2 origin) (markers_of h2 ps)) in
                upd_reg (fst hp) r (reg_set_patcher (snd hp))
            end in
  (h3, r_wrapped (get_reg h3 r)).

(* ---- classes: the entry of the one method name in each class dictionary ---- *)
Inductive attr := AFunc (o : nat)      (* a function object *)
                | AInh (o : nat).      (* an Inherit object wrapping function o, whose _cls is the class it sits in *)
Record kls := { k_name : string; k_bases : list string; k_attr : option attr }.
Record world := { w_heap : heap; w_cls : list kls }.
Definition hier (w : world) := map (fun k => (k_name k, k_bases k)) (w_cls w).
Definition find_kls (w : world) (c : string) : option kls := find (fun k => String.eqb (k_name k) c) (w_cls w).
Definition with_heap (w : world) (h : heap) : world := {| w_heap := h; w_cls := w_cls w |}.
Definition set_attr (w : world) (c : string) (a : attr) : world :=
  {| w_heap := w_heap w;
     w_cls := map (fun k => if String.eqb (k_name k) c then {| k_name := k_name k; k_bases := k_bases k; k_attr := Some a |} else k) (w_cls w) |}.
(* the first class along a linearisation whose dictionary has the name *)
Fixpoint first_def (w : world) (l : list string) : option (string * attr) :=
  match l with
  | [] => None
  | c :: rest => match find_kls w c with
                 | Some k => match k_attr k with Some a => Some (c, a) | None => first_def w rest end
                 | None => first_def w rest end
  end.

(* getattr(cls, name) as a parameter of _patch: None = out of fuel *)
Definition getter := world -> string -> option (world * option nat).

(* any(getattr(base, name, None) is func for base in bases): short-circuits at the first hit *)
Fixpoint any_is (ga : getter) (w : world) (bases : list string) (o : nat) : option (world * bool) :=
  match bases with
  | [] => Some (w, false)
  | b :: rest => match ga w b with
                 | None => None
                 | Some (w1, Some x) => if Nat.eqb x o then Some (w1, true) else any_is ga w1 rest o
                 | Some (w1, None) => any_is ga w1 rest o
                 end
  end.
(* for base in bases: other = getattr(base, name, None); skip None, the function itself, uncontracted ones; else contracts.wrap(patched) *)
Fixpoint merge_bases (ga : getter) (w : world) (bases : list string) (o patched : nat) : option (world * nat) :=
  match bases with
  | [] => Some (w, patched)
  | b :: rest =>
      match ga w b with
      | None => None
      | Some (w1, None) => merge_bases ga w1 rest o patched
      | Some (w1, Some other) =>
          if Nat.eqb other o then merge_bases ga w1 rest o patched
          else match o_attr (get_obj (w_heap w1) other) with
               | None => merge_bases ga w1 rest o patched
               | Some r => let hp := wrap_reg (w_heap w1) r patched in
                           merge_bases ga (with_heap w1 (fst hp)) rest o (snd hp)
               end
      end
  end.
Definition own_wrapper (h : heap) (o : nat) : option nat :=
  match o_attr (get_obj h o) with
  | Some r => if Nat.eqb (r_wrapped (get_reg h r)) o then Some r else None
  | None => None end.
(* Inherit._patch of the Inherit object (function o) sitting in class c *)
Definition patch_with (ga : getter) (w : world) (c : string) (o : nat) : option (world * nat) :=
  let bases := tl (mro_of (hier w) c) in
  match any_is ga w bases o with
  | None => None
  | Some (w1, inherited) =>
      let start :=
        match (if inherited then own_wrapper (w_heap w1) o else None) with
        | Some r => let hp := wrap_reg (w_heap w1) r (r_func (get_reg (w_heap w1) r)) in (with_heap w1 (fst hp), snd hp)
        | None => (w1, o)
        end in
      match merge_bases ga (fst start) bases o (snd start) with
      | None => None
      | Some (w3, patched) => Some (set_attr w3 c (AFunc patched), patched)
      end
  end.
Fixpoint getattr_n (fuel : nat) (w : world) (cls : string) : option (world * option nat) :=
  match fuel with
  | O => None
  | S n =>
      match first_def w (mro_of (hier w) cls) with
      | None => Some (w, None)
      | Some (_, AFunc o) => Some (w, Some o)
      | Some (c, AInh o) => match patch_with (getattr_n n) w c o with
                            | Some (w1, p) => Some (w1, Some p)
                            | None => None end
      end
  end.
(* @deal.inherit on a class: for the name, func = getattr(target, name); target.__dict__[name] = Inherit(func) with _cls = target *)
Definition class_inherit (fuel : nat) (w : world) (c : string) : option world :=
  match getattr_n fuel w c with
  | None => None
  | Some (w1, Some o) => Some (set_attr w1 c (AInh o))
  | Some (w1, None) => Some w1
  end.

(* ---- building a world: class statements in definition order ---- *)
Record mspec := { ms_steps : list step;      (* the decorators written on the method, innermost first *)
                  ms_inherit : bool }.       (* @deal.inherit on top *)
Record cspec := { cs_name : string; cs_bases : list string; cs_method : option mspec; cs_inherit : bool }.
Definition define_class (fuel : nat) (w : world) (c : cspec) : option world :=
  let hm := match cs_method c with
            | None => (w_heap w, None)
            | Some m =>
                let ho := new_obj (w_heap w) {| o_kind := OBody (cs_name c); o_attr := None; o_wrapped := None; o_fkind := KSync |} in
                let hf := apply_steps (fst ho) (snd ho) (ms_steps m) in
                (fst hf, Some (if ms_inherit m then AInh (snd hf) else AFunc (snd hf)))
            end in
  let w1 := {| w_heap := fst hm; w_cls := (w_cls w ++ [{| k_name := cs_name c; k_bases := cs_bases c; k_attr := snd hm |}])%list |} in
  if cs_inherit c then class_inherit fuel w1 (cs_name c) else Some w1.
Fixpoint define_all (fuel : nat) (w : world) (l : list cspec) : option world :=
  match l with
  | [] => Some w
  | c :: rest => match define_class fuel w c with Some w1 => define_all fuel w1 rest | None => None end
  end.
(* has decorator objects of the scenario: patcher p with its declared markers *)
Definition world0 (patchers : list (nat * list string)) : world :=
  {| w_heap := {| h_objs := []; h_regs := []; h_vfun := []; h_pmarkers := patchers |}; w_cls := [] |}.

(* what is in force on the function a class resolves the name to: the registry (kind, validator) in append order + the markers *)
Definition in_force (h : heap) (o : nat) : list (ckind * nat) * option (list string) :=
  match o_attr (get_obj h o) with
  | Some r => (r_vals (get_reg h r), match r_patcher (get_reg h r) with Some p => Some (markers_of h p) | None => None end)
  | None => ([], None)
  end.
