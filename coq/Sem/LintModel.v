(* Sem/LintModel.v -- the linter's analysis of exceptions and side-effect markers on the fragment of function bodies it claims to
   understand: the traversal that skips try bodies, the exception and marker extractors with their one-level dive into resolvable
   callees (body, declared contracts, docstring) or stubs, and the rules CheckRaises / CheckMarkers. Hand-written from
   deal/linter/_extractors/{common,exceptions,markers,returns}.py and deal/linter/_stub.py (source pinned by tools/py2coq/tr_lint.py);
   the coverage predicates come from the regenerated Gen/Rules.v (linter_covers, linter_admits) and Gen/HasPatcher.v. *)
From Coq Require Import List ZArith Bool String.
Import ListNotations.
Require Import Base Model HasPatcher Rules.
Open Scope string_scope.
Local Open Scope list_scope.

Inductive leaf :=
| LRaise (c : cls)          (* raise X / raise X("bad") *)
| LAssert | LExit           (* assert x / exit(1), sys.exit(1) *)
| LPass | LReturn
| LPrint | LStdout | LStderr | LGlobal | LImport | LOpenR | LOpenW | LRandom | LTime | LSyscall
| LCall (f : string).       (* a call of a function defined in the module (or stubbed) *)
Inductive stmt :=
| SLeaf (l : leaf)
| SIf (body orelse : list stmt)
| SFor (body orelse : list stmt)
| SWhile (body : list stmt)
| SWith (body : list stmt)
| STry (body : list stmt) (handlers : list (option cls * list stmt)) (orelse final : list stmt).

(* traverse(): every node except the bodies of try statements (handlers, else and finally are visited) *)
Fixpoint leaves (s : stmt) : list leaf :=
  match s with
  | SLeaf l => [l]
  | SIf b e | SFor b e => flat_map leaves b ++ flat_map leaves e
  | SWhile b | SWith b => flat_map leaves b
  | STry _ hs e f => flat_map (fun h => flat_map leaves (snd h)) hs ++ flat_map leaves e ++ flat_map leaves f
  end.
Definition visited (body : list stmt) : list leaf := flat_map leaves body.
(* traverse(skip_try=False), used by the marker extractor: side effects happen whether or not the exception is handled *)
Fixpoint leaves_all (s : stmt) : list leaf :=
  match s with
  | SLeaf l => [l]
  | SIf b e | SFor b e => flat_map leaves_all b ++ flat_map leaves_all e
  | SWhile b | SWith b => flat_map leaves_all b
  | STry b hs e f => flat_map leaves_all b ++ flat_map (fun h => flat_map leaves_all (snd h)) hs ++ flat_map leaves_all e ++ flat_map leaves_all f
  end.
Definition visited_all (body : list stmt) : list leaf := flat_map leaves_all body.

(* a callee as the extractors see it: its body, what its contracts declare, what its docstring says it raises; or a stub *)
Record callee := { k_body : list stmt;
                   k_raises : list cls;        (* arguments of its @deal.raises contracts *)
                   k_has : list string;        (* string arguments of its @deal.has contracts *)
                   k_doc : list cls;           (* exceptions named in its docstring *)
                   k_stub : option (list cls * list string) }.   (* stub entries (raises, has) when a stub file describes it *)
Definition ftab := list (string * callee).
Fixpoint lookup (t : ftab) (f : string) : option callee :=
  match t with [] => None | (n, k) :: r => if String.eqb n f then Some k else lookup r f end.

Definition AssertionErrorL : cls := AssertionErrorC.
Definition SystemExitC : cls := {| c_name := "SystemExit"; c_mro := ["BaseException"; "object"] |}.

(* get_exceptions on one visited node; dive = false inside a callee *)
Definition exc_own (l : leaf) : list cls :=
  match l with LRaise c => [c] | LAssert => [AssertionErrorL] | LExit => [SystemExitC] | _ => [] end.
Definition exc_leaf (t : ftab) (use_stubs : bool) (l : leaf) : list cls :=
  match l with
  | LCall f => match lookup t f with
               | None => []
               | Some k => match (if use_stubs then k_stub k else None) with
                           | Some (rs, _) => rs                                   (* stubs found: no dive *)
                           | None => flat_map exc_own (visited (k_body k)) ++ k_raises k ++ k_doc k
                           end
               end
  | _ => exc_own l
  end.
Definition get_exceptions (t : ftab) (use_stubs : bool) (body : list stmt) : list cls := flat_map (exc_leaf t use_stubs) (visited body).

(* get_markers on one visited node *)
Definition marker_own (l : leaf) : list string :=
  match l with
  | LPrint | LStdout => ["stdout"] | LStderr => ["stderr"] | LGlobal => ["global"] | LImport => ["import"]
  | LOpenR => ["read"] | LOpenW => ["write"] | LRandom => ["random"] | LTime => ["time"] | LSyscall => ["syscall"]
  | _ => []
  end.
Definition marker_leaf (t : ftab) (use_stubs : bool) (l : leaf) : list string :=
  match l with
  | LCall f => match lookup t f with
               | None => []
               | Some k => match (if use_stubs then k_stub k else None) with
                           | Some (_, ms) => ms
                           | None => flat_map marker_own (visited_all (k_body k)) ++ k_has k
                           end
               end
  | _ => marker_own l
  end.
Definition get_markers (t : ftab) (use_stubs : bool) (body : list stmt) : list string := flat_map (marker_leaf t use_stubs) (visited_all body).

(* has_returns: a return / yield / raise among all the nodes (try bodies included: traverse(..., skip_try=False)) *)
Definition has_returns (body : list stmt) : bool :=
  existsb (fun l => match l with LReturn | LRaise _ => true | _ => false end) (visited_all body).

(* the function under analysis: its contracts in decorator order *)
Inductive decl := DRaises (cs : list cls) | DSafe | DPure | DHas (ms : list string) | DOtherC.
Record lfunc := { l_body : list stmt; l_decls : list decl; l_has_self : bool }.

(* CheckRaises: active iff a raises / safe / pure contract exists; findings = the extracted exceptions not admitted *)
Definition raises_decls (ds : list decl) : list (list cls) :=
  flat_map (fun d => match d with DRaises cs => [cs] | DSafe | DPure => [[]] | _ => [] end) ds.
Definition check_raises (t : ftab) (use_stubs : bool) (f : lfunc) : list string :=
  match raises_decls (l_decls f) with
  | [] => []
  | cs => map c_name (filter (fun c => negb (linter_admits cs c)) (get_exceptions t use_stubs (l_body f)))
  end.
(* CheckMarkers: the first has / pure contract decides *)
Definition first_has (ds : list decl) : option (list string) :=
  fold_right (fun d acc => match d with DHas ms => Some ms | DPure => Some [] | _ => acc end) None ds.
Definition undeclared_markers (t : ftab) (use_stubs : bool) (f : lfunc) (M : list string) : list string :=
  (if negb (has_io M) && negb (l_has_self f) && negb (has_returns (l_body f)) then ["io"] else [])
  ++ map linter_canon (filter (fun m => negb (linter_covers M m)) (get_markers t use_stubs (l_body f))).
Definition check_markers (t : ftab) (use_stubs : bool) (f : lfunc) : list string :=
  match first_has (l_decls f) with None => [] | Some M => undeclared_markers t use_stubs f M end.

(* generate_stub: per function, what the extractors find in it (dive enabled, stubs consulted) *)
Definition stub_of (t : ftab) (body : list stmt) : list string * list string :=
  (map c_name (get_exceptions t true body), get_markers t true body).
