(* Sem/DecorateModel.v -- the planning half of deal/linter/_transformer.py: which mutations Transformer.transform() collects for a
   module, given per function its position, its decorators, its existing deal contracts and what the linter rules report as
   still undeclared (CheckRaises / CheckMarkers .get_undeclared: the analysis itself is C18's subject and is an input here).
   Hand-written from _mutations_excs / _mutations_markers / _mutations_property / _mutations_pure / _mutations_import /
   _get_insert_line / transform; tools/py2coq/tr_transformer.py pins their source text. The applying half (the mutation classes,
   their sort keys, _apply_mutations) is regenerated in Gen/Transformer.v. *)
From Coq Require Import List Arith Bool Ascii String.
Import ListNotations.
Require Import Transformer.
Open Scope string_scope.
Local Open Scope list_scope.

Inductive cat := CRaises | CSafe | CPure | CHas | COther.
Definition cat_eqb (a b : cat) : bool :=
  match a, b with CRaises, CRaises | CSafe, CSafe | CPure, CPure | CHas, CHas | COther, COther => true | _, _ => false end.
Definition cat_name (c : cat) : string := match c with CRaises => "raises" | CSafe => "safe" | CPure => "pure" | CHas => "has" | COther => "other" end.
Definition brackets_optional (c : cat) : bool := match c with CSafe | CPure => true | _ => false end.

Record contract := { c_cat : cat; c_line : nat; c_last : nat;   (* first and last line of the decorator *)
                     c_excs : list string;        (* contract.exceptions, as _exc_as_str shows them *)
                     c_markers : list string;     (* the string-valued arguments *)
                     c_inherited : bool }.        (* collected through deal.inherit: the decorator is on the method of a base class *)
Inductive deco := DName (ln : nat) (name : string) | DOther (ln : nat)
                | DInherit (ln : nat).            (* the attribute deal.inherit *)
Definition deco_line (d : deco) : nat := match d with DName ln _ | DOther ln | DInherit ln => ln end.
Record func := { f_line : nat; f_col : nat; f_decos : list deco; f_contracts : list contract;
                 f_new_excs : list string;        (* sorted(set of undeclared exceptions) *)
                 f_new_markers : list string }.   (* sorted(set of undeclared markers) *)
Record types := { t_raises : bool; t_has : bool; t_safe : bool; t_pure : bool; t_import : bool }.
Inductive stmt := SImport (ln : nat) (names : list string) | SImportFrom (ln : nat) (modname : string) | SOther.
Record head := { doc_end : option nat;      (* last line of the module docstring *)
                 shebang : bool }.           (* the file starts with #! *)

(* planner-level mutations keep the structure of InsertContract (the merge into @deal.pure needs it) *)
Inductive pmut := PAppend (l : nat) (t : string) | PInsertText (l : nat) (t : string)
                | PInsertC (l : nat) (c : cat) (args : list string) (indent : nat) | PRemove (l : nat).
Definition pline (m : pmut) : nat := match m with PAppend l _ | PInsertText l _ | PInsertC l _ _ _ | PRemove l => l end.

Fixpoint spaces (n : nat) : string := match n with O => "" | S k => (" " ++ spaces k)%string end.
(* InsertContract.__str__ *)
Definition contract_text (c : cat) (args : list string) (indent : nat) : string :=
  (spaces indent ++ (if match args with [] => brackets_optional c | _ => false end
                     then "@deal." ++ cat_name c
                     else "@deal." ++ cat_name c ++ "(" ++ String.concat ", " args ++ ")"))%string.
Definition lower (m : pmut) : mut :=
  match m with
  | PAppend l t => MAppend l t | PInsertText l t => MInsert l t
  | PInsertC l c a i => MInsertContract l (contract_text c a i) | PRemove l => MRemove l
  end.

(* _get_insert_line *)
Definition is_static_or_class (n : string) : bool := String.eqb n "staticmethod" || String.eqb n "classmethod".
Fixpoint gil (fl : nat) (ds : list deco) (line : nat) : nat :=
  match ds with
  | [] => line
  | d :: r => if Nat.ltb (deco_line d) fl then fl
              else match d with
                   | DOther _ => gil fl r line
                   | DInherit ln => gil fl r (ln + 1)         (* contracts above deal.inherit would wrap the descriptor *)
                   | DName ln n => if is_static_or_class n then gil fl r line else gil fl r (ln + 1)
                   end
  end.
Definition get_insert_line (f : func) : nat := gil (f_line f) (f_decos f) (f_line f).

Definition has_contract (f : func) (cs : list cat) : bool := existsb (fun c => existsb (cat_eqb (c_cat c)) cs) (f_contracts f).
Definition nonempty {X} (l : list X) : bool := match l with [] => false | _ => true end.

(* _remove_contract: every line of the decorator, first line first *)
Definition remove_contract (c : contract) : list pmut := map PRemove (seq (c_line c) (S (c_last c - c_line c))).

(* _mutations_excs *)
Definition exc_cat (c : contract) : bool := match c_cat c with CRaises | CSafe | CPure => true | _ => false end.
Definition declared_excs (f : func) : list string := flat_map c_excs (filter exc_cat (f_contracts f)).
Definition mutations_excs (ty : types) (f : func) : list pmut :=
  let il := get_insert_line f in
  let declared := declared_excs f in
  match f_new_excs f with
  | [] => if nonempty declared then []
          else if negb (t_safe ty || t_pure ty) then []
          else if has_contract f [CPure; CSafe] then []
          else [PInsertC il CSafe [] (f_col f)]
  | excs => if negb (t_raises ty) then []
            else flat_map (fun c => if exc_cat c && negb (c_inherited c)      (* an inherited contract is not a decorator of this function *)
                                    then remove_contract c ++ (if cat_eqb (c_cat c) CPure then [PInsertC il CHas [] (f_col f)] else [])
                                    else []) (f_contracts f)
                 ++ [PInsertC il CRaises (declared ++ excs) (f_col f)]
  end.

(* _mutations_markers: reads and edits self.mutations (acc) while list.extend consumes the generator; returns the new self.mutations *)
Definition has_cat (c : contract) : bool := match c_cat c with CHas | CPure => true | _ => false end.
Definition declared_markers (f : func) : list string := flat_map c_markers (filter has_cat (f_contracts f)).
Definition pmut_eqb (a b : pmut) : bool :=
  match a, b with
  | PAppend l t, PAppend l' t' | PInsertText l t, PInsertText l' t' => Nat.eqb l l' && String.eqb t t'
  | PInsertC l c a i, PInsertC l' c' a' i' => Nat.eqb l l' && cat_eqb c c' && Nat.eqb i i' && Nat.eqb (List.length a) (List.length a') && forallb (fun p => String.eqb (fst p) (snd p)) (combine a a')
  | PRemove l, PRemove l' => Nat.eqb l l'
  | _, _ => false
  end.
Fixpoint remove_first (m : pmut) (l : list pmut) : list pmut :=
  match l with [] => [] | x :: t => if pmut_eqb x m then t else x :: remove_first m t end.
Definition markers_step (il col : nat) (acc : list pmut) (c : contract) : list pmut :=
  if negb (has_cat c) then acc
  else if c_inherited c then acc
  else if existsb (pmut_eqb (PRemove (c_line c))) acc
       then remove_first (PInsertC il CHas [] col) acc          (* already split by _mutations_excs: its empty has is replaced *)
       else acc ++ remove_contract c ++ (if cat_eqb (c_cat c) CPure then [PInsertC il CSafe [] col] else []).
(* Transformer._quoted: backslashes and the quote character escaped, then quoted *)
Fixpoint escape (q : string) (s : string) : string :=
  match s with
  | EmptyString => EmptyString
  | String c r => if Ascii.eqb c "\"%char then String "\"%char (String "\"%char (escape q r))
                  else if String.eqb (String c EmptyString) q then String "\"%char (String c (escape q r))
                  else String c (escape q r)
  end.
Definition quoted (quote a : string) : string := (quote ++ escape quote a ++ quote)%string.
Definition collect_markers (quote : string) (ty : types) (f : func) (acc : list pmut) : list pmut :=
  if negb (t_has ty || t_pure ty) then acc else
  let il := get_insert_line f in
  let declared := declared_markers f in
  match f_new_markers f with
  | [] => if has_contract f [CPure; CHas] then acc else acc ++ [PInsertC il CHas [] (f_col f)]
  | markers => if negb (t_has ty) then acc else
               fold_left (markers_step il (f_col f)) (f_contracts f) acc
               ++ [PInsertC il CHas (map (quoted quote) (declared ++ markers)) (f_col f)]
  end.

(* _mutations_property: reads self.mutations while list.extend consumes the generator *)
Definition is_property (n : string) : bool := String.eqb n "property" || String.eqb n "cached_property".
Fixpoint mutations_property (acc : list pmut) (ds : list deco) : list pmut :=
  match ds with
  | [] => acc
  | DName ln n :: r => if is_property n && existsb (fun m => Nat.eqb (pline m) (ln + 1)) acc
                       then mutations_property (acc ++ [PAppend ln "  # type: ignore[misc]"]) r
                       else mutations_property acc r
  | DOther _ :: r | DInherit _ :: r => mutations_property acc r
  end.
Definition collect (quote : string) (ty : types) (acc : list pmut) (f : func) : list pmut :=
  collect_markers quote ty f (acc ++ mutations_excs ty f).

(* _mutations_pure: None = the assertion 'unexpected contract generated' fails *)
Definition is_ic (m : pmut) (p : cat -> list string -> bool) : bool := match m with PInsertC _ c a _ => p c a | _ => false end.
Definition pure_lines (ms : list pmut) : list nat :=
  let has := map pline (filter (fun m => is_ic m (fun c a => cat_eqb c CHas && negb (nonempty a))) ms) in
  let safe := map pline (filter (fun m => is_ic m (fun c _ => cat_eqb c CSafe)) ms) in
  filter (fun l => existsb (Nat.eqb l) has) safe.
Definition mutations_pure (ty : types) (ms : list pmut) : option (list pmut) :=
  if negb (t_pure ty) then Some ms else
  match ms with [] => Some ms | _ =>
  let lines := pure_lines ms in
  let on_line m := is_ic m (fun _ _ => true) && existsb (Nat.eqb (pline m)) lines in
  if existsb (fun m => on_line m && negb (is_ic m (fun c _ => cat_eqb c CHas || cat_eqb c CSafe))) ms then None else
  let kept := filter (fun m => negb (on_line m)) ms in
  let merged := flat_map (fun m => match m with
                                   | PInsertC l CSafe a i => if existsb (Nat.eqb l) lines then [PInsertC l CPure a i] else []
                                   | _ => [] end) ms in
  let kept1 := if negb (t_safe ty) then filter (fun m => negb (is_ic m (fun c _ => cat_eqb c CSafe))) kept else kept in
  let kept2 := if negb (t_has ty) then filter (fun m => negb (is_ic m (fun c _ => cat_eqb c CHas))) kept1 else kept1 in
  Some (kept2 ++ merged)
  end.

(* _mutations_import *)
Definition imports_deal (body : list stmt) : bool :=
  existsb (fun s => match s with SImport _ names => existsb (String.eqb "deal") names | _ => false end) body.
Definition import_start (h : head) : nat := match doc_end h with Some e => e + 1 | None => if shebang h then 2 else 1 end.
(* the imports at the top of the file: the walk stops at the first statement that is no import *)
Definition import_step (st : nat * bool) (s : stmt) : nat * bool :=
  if snd st then st else
  match s with
  | SImport ln _ => (ln + 1, false)                 (* ln: the last line of the statement *)
  | SImportFrom ln m => (if String.eqb m "__future__" then ln + 1 else fst st, false)
  | SOther => (fst st, true)
  end.
Definition import_line (h : head) (body : list stmt) : nat := fst (fold_left import_step body (import_start h, false)).
Definition mutations_import (ty : types) (h : head) (body : list stmt) (ms : list pmut) : list pmut :=
  if negb (t_import ty) then [] else
  match ms with [] => [] | _ => if imports_deal body then [] else [PInsertText (import_line h body) "import deal"] end.

(* transform(): the mutations handed to _apply_mutations *)
Definition plan (quote : string) (ty : types) (h : head) (body : list stmt) (fs : list func) : option (list pmut) :=
  match mutations_pure ty (fold_left (collect quote ty) fs []) with
  | None => None
  | Some ms => let ms2 := fold_left (fun acc f => mutations_property acc (f_decos f)) fs ms in
               Some (ms2 ++ mutations_import ty h body ms2)
  end.
Definition transform (quote : string) (ty : types) (h : head) (body : list stmt) (fs : list func) (ls : list string) : option (list string) :=
  match plan quote ty h body fs with
  | None => None
  | Some [] => Some ls
  | Some ms => Some (apply_mutations (map lower ms) ls)
  end.
