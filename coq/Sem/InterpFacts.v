(* Sem/InterpFacts.v -- the program logic: forward rules and inversion rules per combinator, each proved once
   by induction on the program. No functional extensionality is used: rules are stated for executions that
   finish (Done) or run out of fuel; suspension is handled separately (generator lemmas). *)
From Coq Require Import List ZArith Bool String.
Import ListNotations.
Require Import Base Prog Interp.
Set Implicit Arguments.

(* programs made of state effects only, run without a handler *)
Fixpoint run_simple {A} (p : prog A) (s : st) : option ((A + exn) * st) :=
  match p with
  | Ret a => Some (inl a, s)
  | Raise e => Some (inr e, s)
  | Vis ev k =>
      match ev in eff X return (X -> prog A) -> option ((A + exn) * st) with
      | Simple f => fun k => let (x, s') := f s in run_simple (k x) s'
      | _ => fun _ => None
      end k
  | Yield _ _ => None
  end.

Lemma run_simple_bind A B (p : prog A) (f : A -> prog B) s :
  run_simple (bind p f) s = match run_simple p s with
                            | Some (inl a, s1) => run_simple (f a) s1
                            | Some (inr e, s1) => Some (inr e, s1)
                            | None => None end.
Proof.
  revert s. induction p as [x|e0|X ev k IH|v k IH]; intro s; cbn [bind run_simple]; try reflexivity.
  destruct ev; try reflexivity. destruct (f0 s). apply IH.
Qed.
Lemma run_simple_catch A (p : prog A) s :
  run_simple (catch p) s = match run_simple p s with Some (r, s1) => Some (inl r, s1) | None => None end.
Proof.
  revert s. induction p as [x|e0|X ev k IH|v k IH]; intro s; cbn [catch run_simple]; try reflexivity.
  destruct ev; try reflexivity. destruct (f s). apply IH.
Qed.

Section Facts.
  Variable ftab : fid -> option fdef.
  Notation I := (interp ftab).
  Notation H n := (handle ftab (rec_of ftab n)).

  Lemma interp_ret n A (a : A) w : I n (Ret a) w = Done (inl a) w.
  Proof. destruct n; reflexivity. Qed.
  Lemma interp_raise n A e w : I n (@Raise A e) w = Done (inr e) w.
  Proof. destruct n; reflexivity. Qed.
  Lemma interp_yield n A v (k : resume -> prog A) w : I n (Yield v k) w = Susp v k w.
  Proof. destruct n; reflexivity. Qed.
  Lemma interp_vis n A X (ev : eff X) (k : X -> prog A) w :
    I n (Vis ev k) w = match H n ev w with
                       | EVal x w1 => I n (k x) w1
                       | ESusp v kk w1 => Susp v (fun r => bind (kk r) k) w1
                       | EOut => OutOfFuel end.
  Proof. destruct n; reflexivity. Qed.
  Lemma handle_simple n X (f : st -> X * st) w :
    H n (Simple f) w = EVal (fst (f (wst w))) (with_st (snd (f (wst w))) w).
  Proof. cbn. destruct (f (wst w)); reflexivity. Qed.
  Lemma interp_simple n A X (f : st -> X * st) (k : X -> prog A) w :
    I n (Vis (Simple f) k) w = I n (k (fst (f (wst w)))) (with_st (snd (f (wst w))) w).
  Proof. rewrite interp_vis, handle_simple. reflexivity. Qed.
  Lemma interp_act n X (f : st -> X * st) w :
    I n (act f) w = Done (inl (fst (f (wst w)))) (with_st (snd (f (wst w))) w).
  Proof. unfold act, trigger. rewrite interp_simple. apply interp_ret. Qed.
  Lemma interp_get n X (f : st -> X) w : I n (get f) w = Done (inl (f (wst w))) w.
  Proof. unfold get. rewrite interp_act. cbn. destruct w; reflexivity. Qed.
  Lemma interp_modify n (f : st -> st) w : I n (modify f) w = Done (inl tt) (on_st f w).
  Proof. unfold modify. rewrite interp_act. reflexivity. Qed.
  Lemma interp_log n ev w : I n (log ev) w = Done (inl tt) (on_st (emit ev) w).
  Proof. apply interp_modify. Qed.

  (* ----- bind ----- *)
  Lemma interp_bind_done n A B (p : prog A) (f : A -> prog B) w a w1 :
    I n p w = Done (inl a) w1 -> I n (bind p f) w = I n (f a) w1.
  Proof.
    revert w. induction p as [x|e|X ev k IH|v k IH]; intro w.
    - rewrite interp_ret. intro E; inversion E; subst. reflexivity.
    - rewrite interp_raise. discriminate.
    - cbn [bind]. rewrite !interp_vis. destruct (H n ev w); try discriminate. apply IH.
    - rewrite interp_yield. discriminate.
  Qed.
  Lemma interp_bind2_done n A B C (p : prog A) (h : A -> prog B) (g : B -> prog C) w a w1 :
    I n p w = Done (inl a) w1 -> I n (bind (bind p h) g) w = I n (bind (h a) g) w1.
  Proof.
    revert w. induction p as [x|e|X ev k IH|v k IH]; intro w.
    - rewrite interp_ret. intro E; inversion E; subst. reflexivity.
    - rewrite interp_raise. discriminate.
    - cbn [bind]. rewrite !interp_vis. destruct (H n ev w); try discriminate. apply IH.
    - rewrite interp_yield. discriminate.
  Qed.
  Lemma interp_bind_raise n A B (p : prog A) (f : A -> prog B) w e w1 :
    I n p w = Done (inr e) w1 -> I n (bind p f) w = Done (inr e) w1.
  Proof.
    revert w. induction p as [x|e0|X ev k IH|v k IH]; intro w.
    - rewrite interp_ret. discriminate.
    - cbn [bind]. rewrite !interp_raise. intro E; inversion E; subst. reflexivity.
    - cbn [bind]. rewrite !interp_vis. destruct (H n ev w); try discriminate. apply IH.
    - rewrite interp_yield. discriminate.
  Qed.
  Lemma interp_bind_oof n A B (p : prog A) (f : A -> prog B) w :
    I n p w = OutOfFuel -> I n (bind p f) w = OutOfFuel.
  Proof.
    revert w. induction p as [x|e0|X ev k IH|v k IH]; intro w.
    - rewrite interp_ret. discriminate.
    - rewrite interp_raise. discriminate.
    - cbn [bind]. rewrite !interp_vis. destruct (H n ev w); try discriminate; [apply IH|reflexivity].
    - rewrite interp_yield. discriminate.
  Qed.
  Lemma interp_bind_inv n A B (p : prog A) (f : A -> prog B) w r w' :
    I n (bind p f) w = Done r w' ->
    (exists a w1, I n p w = Done (inl a) w1 /\ I n (f a) w1 = Done r w') \/
    (exists e, I n p w = Done (inr e) w' /\ r = inr e).
  Proof.
    revert w. induction p as [x|e0|X ev k IH|v k IH]; intro w.
    - cbn [bind]. intro E. left. exists x, w. rewrite interp_ret. split; [reflexivity|exact E].
    - cbn [bind]. rewrite interp_raise. intro E; inversion E; subst. right. exists e0. split; [apply interp_raise|reflexivity].
    - cbn [bind]. rewrite !interp_vis. destruct (H n ev w); try discriminate. apply IH.
    - cbn [bind]. rewrite interp_yield. discriminate.
  Qed.
  (* bind never turns a suspension or fuel exhaustion into a result *)
  Lemma interp_bind_susp_inv n A B (p : prog A) (f : A -> prog B) w v k w' :
    I n p w = Susp v k w' -> exists k', I n (bind p f) w = Susp v k' w'.
  Proof.
    revert w. induction p as [x|e0|X ev k0 IH|v0 k0 IH]; intro w.
    - rewrite interp_ret. discriminate.
    - rewrite interp_raise. discriminate.
    - cbn [bind]. rewrite !interp_vis. destruct (H n ev w); try discriminate.
      + apply IH.
      + intro E; inversion E; subst. eexists; reflexivity.
    - cbn [bind]. rewrite !interp_yield. intro E; inversion E; subst. eexists; reflexivity.
  Qed.

  (* ----- catch ----- *)
  Lemma interp_catch_done n A (p : prog A) w r w1 :
    I n p w = Done r w1 -> I n (catch p) w = Done (inl r) w1.
  Proof.
    revert w. induction p as [x|e0|X ev k IH|v k IH]; intro w.
    - cbn [catch]. rewrite !interp_ret. intro E; inversion E; reflexivity.
    - cbn [catch]. rewrite interp_raise, interp_ret. intro E; inversion E; reflexivity.
    - cbn [catch]. rewrite !interp_vis. destruct (H n ev w); try discriminate. apply IH.
    - rewrite interp_yield. discriminate.
  Qed.
  Lemma interp_catch_inv n A (p : prog A) w r w1 :
    I n (catch p) w = Done r w1 -> exists r0, r = inl r0 /\ I n p w = Done r0 w1.
  Proof.
    revert w. induction p as [x|e0|X ev k IH|v k IH]; intro w.
    - cbn [catch]. rewrite !interp_ret. intro E; inversion E; subst. eexists; split; reflexivity.
    - cbn [catch]. rewrite interp_raise, interp_ret. intro E; inversion E; subst. eexists; split; reflexivity.
    - cbn [catch]. rewrite !interp_vis. destruct (H n ev w); try discriminate. apply IH.
    - cbn [catch]. rewrite interp_yield. discriminate.
  Qed.
  Lemma interp_catch_oof n A (p : prog A) w : I n p w = OutOfFuel -> I n (catch p) w = OutOfFuel.
  Proof.
    revert w. induction p as [x|e0|X ev k IH|v k IH]; intro w.
    - rewrite interp_ret; discriminate.
    - rewrite interp_raise; discriminate.
    - cbn [catch]. rewrite !interp_vis. destruct (H n ev w); try discriminate; [apply IH|reflexivity].
    - rewrite interp_yield; discriminate.
  Qed.

  (* ----- try / finally ----- *)
  Lemma interp_try_finally_done n A (p : prog A) (q : prog unit) w r w1 :
    I n p w = Done r w1 ->
    I n (try_finally p q) w = I n (q ;;; match r with inl a => Ret a | inr e => Raise e end) w1.
  Proof.
    revert w. induction p as [x|e0|X ev k IH|v k IH]; intro w.
    - rewrite interp_ret. intro E; inversion E; subst. reflexivity.
    - rewrite interp_raise. intro E; inversion E; subst. reflexivity.
    - cbn [try_finally]. rewrite !interp_vis. destruct (H n ev w); try discriminate. apply IH.
    - rewrite interp_yield. discriminate.
  Qed.
  Lemma interp_try_finally_inv n A (p : prog A) (q : prog unit) w r w' :
    I n (try_finally p q) w = Done r w' ->
    exists r0 w1, I n p w = Done r0 w1 /\
                  I n (q ;;; match r0 with inl a => Ret a | inr e => Raise e end) w1 = Done r w'.
  Proof.
    revert w. induction p as [x|e0|X ev k IH|v k IH]; intro w.
    - cbn [try_finally]. intro E. exists (inl x), w. rewrite interp_ret. split; [reflexivity|exact E].
    - cbn [try_finally]. intro E. exists (inr e0), w. rewrite interp_raise. split; [reflexivity|exact E].
    - cbn [try_finally]. rewrite !interp_vis. destruct (H n ev w); try discriminate. apply IH.
    - cbn [try_finally]. rewrite interp_yield. discriminate.
  Qed.

  (* ----- try / except ----- *)
  Lemma interp_try_except_ret n A (p : prog A) h w a w1 :
    I n p w = Done (inl a) w1 -> I n (try_except p h) w = Done (inl a) w1.
  Proof.
    revert w. induction p as [x|e0|X ev k IH|v k IH]; intro w.
    - cbn [try_except]. rewrite !interp_ret. auto.
    - rewrite interp_raise. discriminate.
    - cbn [try_except]. rewrite !interp_vis. destruct (H n ev w); try discriminate. apply IH.
    - rewrite interp_yield. discriminate.
  Qed.
  Lemma interp_try_except_raise n A (p : prog A) h w e w1 :
    I n p w = Done (inr e) w1 ->
    I n (try_except p h) w = match h e with Some q => I n q w1 | None => Done (inr e) w1 end.
  Proof.
    revert w. induction p as [x|e0|X ev k IH|v k IH]; intro w.
    - rewrite interp_ret. discriminate.
    - cbn [try_except]. rewrite interp_raise. intro E; inversion E; subst.
      destruct (h e); [reflexivity|apply interp_raise].
    - cbn [try_except]. rewrite !interp_vis. destruct (H n ev w); try discriminate. apply IH.
    - rewrite interp_yield. discriminate.
  Qed.
  Lemma interp_try_except_inv n A (p : prog A) h w r w' :
    I n (try_except p h) w = Done r w' ->
    (exists a, I n p w = Done (inl a) w' /\ r = inl a) \/
    (exists e w1, I n p w = Done (inr e) w1 /\
                  match h e with Some q => I n q w1 = Done r w' | None => r = inr e /\ w1 = w' end).
  Proof.
    revert w. induction p as [x|e0|X ev k IH|v k IH]; intro w.
    - cbn [try_except]. rewrite !interp_ret. intro E; inversion E; subst. left. eexists; split; reflexivity.
    - cbn [try_except]. intro E. right. exists e0, w. rewrite interp_raise. split; [reflexivity|].
      destruct (h e0); [exact E|]. rewrite interp_raise in E. inversion E; subst. split; reflexivity.
    - cbn [try_except]. rewrite !interp_vis. destruct (H n ev w); try discriminate. apply IH.
    - cbn [try_except]. rewrite interp_yield. discriminate.
  Qed.

  (* ----- in_handler ----- *)
  Lemma interp_in_handler_done n A cur (p : prog A) w r w1 :
    I n p w = Done r w1 ->
    I n (in_handler cur p) w = Done (match r with inl a => inl a | inr e => inr (chain_ctx cur e) end) w1.
  Proof.
    revert w. induction p as [x|e0|X ev k IH|v k IH]; intro w.
    - cbn [in_handler]. rewrite !interp_ret. intro E; inversion E; reflexivity.
    - cbn [in_handler]. rewrite !interp_raise. intro E; inversion E; reflexivity.
    - cbn [in_handler]. rewrite !interp_vis. destruct (H n ev w); try discriminate. apply IH.
    - rewrite interp_yield. discriminate.
  Qed.
  Lemma interp_in_handler_inv n A cur (p : prog A) w r w1 :
    I n (in_handler cur p) w = Done r w1 ->
    exists r0, I n p w = Done r0 w1 /\ r = match r0 with inl a => inl a | inr e => inr (chain_ctx cur e) end.
  Proof.
    revert w. induction p as [x|e0|X ev k IH|v k IH]; intro w.
    - cbn [in_handler]. rewrite !interp_ret. intro E; inversion E; subst. eexists; split; reflexivity.
    - cbn [in_handler]. rewrite !interp_raise. intro E; inversion E; subst. eexists; split; reflexivity.
    - cbn [in_handler]. rewrite !interp_vis. destruct (H n ev w); try discriminate. apply IH.
    - cbn [in_handler]. rewrite interp_yield. discriminate.
  Qed.

  (* ----- straight-line programs (state effects only) are decided by computation ----- *)
  Lemma run_simple_sound n A (p : prog A) s r s' g :
    run_simple p s = Some (r, s') -> I n p {| wst := s; gens := g |} = Done r {| wst := s'; gens := g |}.
  Proof.
    revert s. induction p as [x|e0|X ev k IH|v k IH]; intro s; cbn [run_simple].
    - intro E; inversion E; subst. apply interp_ret.
    - intro E; inversion E; subst. apply interp_raise.
    - destruct ev; try discriminate. rewrite interp_simple. cbn [wst with_st].
      destruct (f s) as [x s1] eqn:Ef. cbn [fst snd]. apply IH.
    - discriminate.
  Qed.

  (* ----- foreach ----- *)
  Lemma interp_foreach_nil n X (f : X -> prog unit) w : I n (foreach [] f) w = Done (inl tt) w.
  Proof. apply interp_ret. Qed.
End Facts.
