(* Sem/StmtFacts.v -- forward rules for the statement combinators (used to walk generated code statement by statement). *)
From Coq Require Import List ZArith Bool String.
Import ListNotations.
Require Import Base Prog Interp InterpFacts.
Set Implicit Arguments.

Section StmtFacts.
  Variable ftab : fid -> option fdef.
  Variables env R : Type.
  Notation I := (interp ftab).
  Notation stmt := (stmt env R).

  Lemma seq_normal n (a b : stmt) e w e1 w1 :
    I n (a e) w = Done (inl (CNormal, e1)) w1 -> I n (s_seq a b e) w = I n (b e1) w1.
  Proof. intro H. unfold s_seq. erewrite interp_bind_done by exact H. reflexivity. Qed.
  Lemma seq_return n (a b : stmt) e w v e1 w1 :
    I n (a e) w = Done (inl (CReturn v, e1)) w1 -> I n (s_seq a b e) w = Done (inl (CReturn v, e1)) w1.
  Proof. intro H. unfold s_seq. erewrite interp_bind_done by exact H. cbn. apply interp_ret. Qed.
  Lemma seq_raise n (a b : stmt) e w x w1 :
    I n (a e) w = Done (inr x) w1 -> I n (s_seq a b e) w = Done (inr x) w1.
  Proof. intro H. unfold s_seq. erewrite interp_bind_raise by exact H. reflexivity. Qed.
  Lemma seq_oof n (a b : stmt) e w : I n (a e) w = OutOfFuel -> I n (s_seq a b e) w = OutOfFuel.
  Proof. intro H. unfold s_seq. apply interp_bind_oof. exact H. Qed.

  Lemma do_done n (p : env -> prog unit) e w w1 :
    I n (p e) w = Done (inl tt) w1 -> I n (s_do (R:=R) p e) w = Done (inl (CNormal, e)) w1.
  Proof. intro H. unfold s_do. erewrite interp_bind_done by exact H. apply interp_ret. Qed.
  Lemma do_raise n (p : env -> prog unit) e w x w1 :
    I n (p e) w = Done (inr x) w1 -> I n (s_do (R:=R) p e) w = Done (inr x) w1.
  Proof. intro H. unfold s_do. erewrite interp_bind_raise by exact H. reflexivity. Qed.
  Lemma do_oof n (p : env -> prog unit) e w : I n (p e) w = OutOfFuel -> I n (s_do (R:=R) p e) w = OutOfFuel.
  Proof. intro H. unfold s_do. apply interp_bind_oof. exact H. Qed.

  Lemma if_done n (c : env -> prog bool) (a b : stmt) e w t w1 :
    I n (c e) w = Done (inl t) w1 -> I n (s_if c a b e) w = I n ((if t then a else b) e) w1.
  Proof. intro H. unfold s_if. erewrite interp_bind_done by exact H. destruct t; reflexivity. Qed.

  Lemma assign_done n X (set : X -> env -> env) (p : env -> prog X) e w x w1 :
    I n (p e) w = Done (inl x) w1 -> I n (s_assign (R:=R) set p e) w = Done (inl (CNormal, set x e)) w1.
  Proof. intro H. unfold s_assign. erewrite interp_bind_done by exact H. apply interp_ret. Qed.
  Lemma assign_raise n X (set : X -> env -> env) (p : env -> prog X) e w x w1 :
    I n (p e) w = Done (inr x) w1 -> I n (s_assign (R:=R) set p e) w = Done (inr x) w1.
  Proof. intro H. unfold s_assign. erewrite interp_bind_raise by exact H. reflexivity. Qed.

  Lemma return_done n (p : env -> prog R) e w v w1 :
    I n (p e) w = Done (inl v) w1 -> I n (s_return p e) w = Done (inl (CReturn v, e)) w1.
  Proof. intro H. unfold s_return. erewrite interp_bind_done by exact H. apply interp_ret. Qed.
  Lemma return_raise n (p : env -> prog R) e w x w1 :
    I n (p e) w = Done (inr x) w1 -> I n (s_return p e) w = Done (inr x) w1.
  Proof. intro H. unfold s_return. erewrite interp_bind_raise by exact H. reflexivity. Qed.

  (* try: a finally: f *)
  Lemma finally_done n (a f : stmt) e w r w1 :
    I n (a e) w = Done r w1 ->
    I n (s_finally a f e) w =
    I n (match r with
         | inl (c, e1) => r2 <- f e1 ;; match fst r2 with CNormal => Ret (c, snd r2) | CReturn v => Ret (CReturn v, snd r2) end
         | inr ex => r2 <- in_handler ex (f e) ;; match fst r2 with CNormal => Raise ex | CReturn v => Ret (CReturn v, snd r2) end
         end) w1.
  Proof.
    intro H. unfold s_finally. erewrite interp_bind_done by (apply interp_catch_done; exact H).
    destruct r as [[c e1]|ex]; reflexivity.
  Qed.
  Lemma finally_oof n (a f : stmt) e w : I n (a e) w = OutOfFuel -> I n (s_finally a f e) w = OutOfFuel.
  Proof. intro H. unfold s_finally. apply interp_bind_oof, interp_catch_oof. exact H. Qed.

  Lemma for_nil n X (set : X -> env -> env) (body : stmt) e w :
    I n (s_for_list set [] body e) w = Done (inl (CNormal, e)) w.
  Proof. apply interp_ret. Qed.
  Lemma for_cons_normal n X (set : X -> env -> env) x xs (body : stmt) e w e1 w1 :
    I n (body (set x e)) w = Done (inl (CNormal, e1)) w1 ->
    I n (s_for_list set (x :: xs) body e) w = I n (s_for_list set xs body e1) w1.
  Proof. intro H. cbn [s_for_list]. erewrite interp_bind_done by exact H. reflexivity. Qed.
  Lemma for_cons_raise n X (set : X -> env -> env) x xs (body : stmt) e w ex w1 :
    I n (body (set x e)) w = Done (inr ex) w1 ->
    I n (s_for_list set (x :: xs) body e) w = Done (inr ex) w1.
  Proof. intro H. cbn [s_for_list]. erewrite interp_bind_raise by exact H. reflexivity. Qed.
  Lemma for_cons_oof n X (set : X -> env -> env) x xs (body : stmt) e w :
    I n (body (set x e)) w = OutOfFuel -> I n (s_for_list set (x :: xs) body e) w = OutOfFuel.
  Proof. intro H. cbn [s_for_list]. apply interp_bind_oof. exact H. Qed.

  Lemma run_body_done n (s : stmt) e d w c e1 w1 :
    I n (s e) w = Done (inl (c, e1)) w1 ->
    I n (run_body s e d) w = Done (inl (match c with CReturn v => v | CNormal => d end)) w1.
  Proof. intro H. unfold run_body. erewrite interp_bind_done by exact H. unfold ret_or. cbn. apply interp_ret. Qed.
  Lemma run_body_raise n (s : stmt) e d w x w1 :
    I n (s e) w = Done (inr x) w1 -> I n (run_body s e d) w = Done (inr x) w1.
  Proof. intro H. unfold run_body. erewrite interp_bind_raise by exact H. reflexivity. Qed.
  Lemma run_body_oof n (s : stmt) e d w : I n (s e) w = OutOfFuel -> I n (run_body s e d) w = OutOfFuel.
  Proof. intro H. unfold run_body. apply interp_bind_oof. exact H. Qed.
  Lemma seq_susp n (a b : stmt) e w v k w1 :
    I n (a e) w = Susp v k w1 -> exists k', I n (s_seq a b e) w = Susp v k' w1.
  Proof. intro H. unfold s_seq. eapply interp_bind_susp_inv. exact H. Qed.
  Lemma yield_susp n (p : env -> value) e w :
    exists k, I n (s_yield (R:=R) p e) w = Susp (p e) k w.
  Proof. unfold s_yield. rewrite interp_yield. eexists; reflexivity. Qed.
  Lemma while_iter_raise n m (body : stmt) e w x w1 :
    I n (body e) w = Done (inr x) w1 -> I n (s_while_true (S m) body e) w = Done (inr x) w1.
  Proof. intro H. cbn [s_while_true]. erewrite interp_bind_raise by exact H. reflexivity. Qed.
  Lemma while_iter_susp n m (body : stmt) e w v k w1 :
    I n (body e) w = Susp v k w1 -> exists k', I n (s_while_true (S m) body e) w = Susp v k' w1.
  Proof. intro H. cbn [s_while_true]. eapply interp_bind_susp_inv. exact H. Qed.

  (* walking a function body statement by statement, whatever the rest does (it may suspend) *)
  Lemma run_body_seq_normal n (a b : stmt) e d w e1 w1 :
    I n (a e) w = Done (inl (CNormal, e1)) w1 -> I n (run_body (s_seq a b) e d) w = I n (run_body b e1 d) w1.
  Proof. intro H. unfold run_body, s_seq. erewrite interp_bind2_done by exact H. reflexivity. Qed.
  Lemma run_body_seq_return n (a b : stmt) e d w v e1 w1 :
    I n (a e) w = Done (inl (CReturn v, e1)) w1 -> I n (run_body (s_seq a b) e d) w = Done (inl v) w1.
  Proof. intro H. apply run_body_done with (c := CReturn v) (e1 := e1). apply seq_return. exact H. Qed.
  Lemma run_body_seq_raise n (a b : stmt) e d w x w1 :
    I n (a e) w = Done (inr x) w1 -> I n (run_body (s_seq a b) e d) w = Done (inr x) w1.
  Proof. intro H. apply run_body_raise. apply seq_raise. exact H. Qed.
  Lemma run_body_seq_oof n (a b : stmt) e d w :
    I n (a e) w = OutOfFuel -> I n (run_body (s_seq a b) e d) w = OutOfFuel.
  Proof. intro H. apply run_body_oof, seq_oof. exact H. Qed.
  (* ----- inversion rules ----- *)
  Lemma run_body_seq_inv n (a b : stmt) e d w r w' :
    I n (run_body (s_seq a b) e d) w = Done r w' ->
    (exists e1 w1, I n (a e) w = Done (inl (CNormal, e1)) w1 /\ I n (run_body b e1 d) w1 = Done r w') \/
    (exists v e1, I n (a e) w = Done (inl (CReturn v, e1)) w' /\ r = inl v) \/
    (exists x, I n (a e) w = Done (inr x) w' /\ r = inr x).
  Proof.
    unfold run_body, s_seq. intro H. apply interp_bind_inv in H.
    destruct H as [([c e2] & w2 & H1 & H2)|(x & H1 & ->)].
    - apply interp_bind_inv in H1. destruct H1 as [([c1 e1] & w1 & Ha & Hb)|(x & Ha & Hx)]; [|discriminate].
      cbn [fst snd] in Hb. destruct c1.
      + left. exists e1, w1. split; [exact Ha|]. erewrite interp_bind_done by exact Hb. exact H2.
      + rewrite interp_ret in Hb. inversion Hb; subst. rewrite interp_ret in H2. inversion H2; subst.
        right. left. exists v, e2. split; [exact Ha|reflexivity].
    - apply interp_bind_inv in H1. destruct H1 as [([c1 e1] & w1 & Ha & Hb)|(y & Ha & Hy)].
      + cbn [fst snd] in Hb. destruct c1.
        * left. exists e1, w1. split; [exact Ha|]. erewrite interp_bind_raise by exact Hb. reflexivity.
        * rewrite interp_ret in Hb. discriminate.
      + inversion Hy; subst. right. right. eexists. split; [exact Ha|reflexivity].
  Qed.
  Lemma run_body_skip n e d w : I n (run_body (s_skip (env:=env) (R:=R)) e d) w = Done (inl d) w.
  Proof. unfold run_body, s_skip. erewrite interp_bind_done by apply interp_ret. apply interp_ret. Qed.

  (* try: a finally: f, where the finaliser always completes normally turning world w into G w *)
  Lemma finally_total_inv n (a f : stmt) (G : world -> world) e w r w' :
    (forall e w, I n (f e) w = Done (inl (CNormal, e)) (G w)) ->
    I n (s_finally a f e) w = Done r w' ->
    exists r0 w1, I n (a e) w = Done r0 w1 /\ w' = G w1 /\ r = r0.
  Proof.
    intros Hf H. unfold s_finally in H. apply interp_bind_inv in H.
    destruct H as [(r0 & w1 & H1 & H2)|(x & H1 & _)].
    - apply interp_catch_inv in H1. destruct H1 as (r1 & Hr & Ha). inversion Hr; subst r0. clear Hr.
      exists r1, w1. split; [exact Ha|]. destruct r1 as [[c e1]|ex].
      + erewrite interp_bind_done in H2 by apply Hf. cbn [fst snd] in H2. rewrite interp_ret in H2.
        inversion H2; subst. split; reflexivity.
      + erewrite interp_bind_done in H2.
        2:{ erewrite interp_in_handler_done by apply Hf. reflexivity. }
        cbn [fst snd] in H2. rewrite interp_raise in H2. inversion H2; subst. split; reflexivity.
    - apply interp_catch_inv in H1. destruct H1 as (r1 & Hr & _). discriminate.
  Qed.
End StmtFacts.
