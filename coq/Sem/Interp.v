(* Sem/Interp.v -- the handler: runs a program against the process state, the table of functions and the
   pool of live generators. Outer recursion on fuel (calls, generator resumptions), inner structural
   recursion on the program. OutOfFuel is a distinguished result, excluded in every theorem statement. *)
From Coq Require Import List ZArith Bool String.
Import ListNotations.
Require Import Base Prog.
Set Implicit Arguments.

Inductive fkind := KSync | KAsync | KGen.
(* a callable of the scenario: what calling its (decorated) name runs, and what its original body runs *)
Record fdef := { f_kind : fkind;
                 f_wrapper : pargs -> pkwargs -> prog value;
                 f_body : pargs -> pkwargs -> prog value;
                 f_accepts : pargs -> pkwargs -> bool;  (* does calling the (decorated) name bind its arguments? a bare generator
                                                           function rejects a bad call at once, deal's wrapper( *args, **kwargs) never *)
                 f_binds : pargs -> pkwargs -> bool     (* does the ORIGINAL function's own signature bind the arguments? calling a
                                                           generator function binds at once: a bad call is a TypeError before any
                                                           generator object exists (and outside the try of _run_iter) *) }.

(* co: the handle is a coroutine object (created by Spawn) rather than a generator: resuming a finished one is a RuntimeError *)
Inductive gstate := GNew (co : bool) (p : prog value) | GLive (co : bool) (k : resume -> prog value) | GRunning | GDone (co : bool).
Record world := { wst : st; gens : list gstate }.
Definition w_init := {| wst := st0; gens := [] |}.
Definition on_st (f : st -> st) (w : world) := {| wst := f (wst w); gens := gens w |}.
Definition with_st (s : st) (w : world) := {| wst := s; gens := gens w |}.
Fixpoint list_set {X} (l : list X) (n : nat) (x : X) : list X :=
  match l, n with [] , _ => [] | _ :: t, O => x :: t | h :: t, S m => h :: list_set t m x end.
Definition set_gen (h : nat) (g : gstate) (w : world) := {| wst := wst w; gens := list_set (gens w) h g |}.
Definition new_gen (g : gstate) (w : world) : nat * world :=
  (List.length (gens w), {| wst := wst w; gens := (gens w ++ [g])%list |}).

Inductive res (A : Type) :=
| Done (r : A + exn) (w : world)
| Susp (v : value) (k : resume -> prog A) (w : world)
| OutOfFuel.
Arguments OutOfFuel {A}.

Definition bad_yield : exn := mk_exn (mk_cls "<yield-outside-generator>" []) [].
Definition stop_iteration : exn := mk_exn StopIterationC [].
Definition generator_exit : exn := mk_exn GeneratorExitC [].
Definition just_started : exn := mk_exn TypeErrorC [VStr "can't send non-None value to a just-started generator"].
Definition reused_coroutine : exn := mk_exn RuntimeErrorC [VStr "cannot reuse already awaited coroutine"].
Definition ignored_exit : exn := mk_exn RuntimeErrorC [VStr "generator ignored GeneratorExit"].

(* what `resume` does to a generator that is not suspended at a yield *)
Definition start (p : prog value) (r : resume) : prog value :=
  match r with Send _ => p | Throw e => Raise e | Close => Ret VNone end.
Definition finished (r : resume) : gen_res :=
  match r with Send _ => GStop VNone | Throw e => GRaise e | Close => GStop VNone end.

(* the result of handling one effect: it completed with a value, it suspended (a coroutine awaiting), or fuel ran out *)
Inductive eres (X : Type) :=
| EVal (x : X) (w : world)
| ESusp (v : value) (kk : resume -> prog X) (w : world)
| EOut.
Arguments EOut {X}.

Definition no_such_function : exn := mk_exn (mk_cls "<no-such-function>" []) [].
Definition runner := forall A, prog A -> world -> res A.

Section Interp.
  Variable ftab : fid -> option fdef.

  (* one effect; [rec] is the interpreter with one unit of fuel less (None: no fuel left for calls) *)
  Definition handle (rec : option runner) X (ev : eff X) (w : world) : eres X :=
    match ev in eff X return eres X with
    | Simple f => let (x, s) := f (wst w) in EVal x (with_st s w)
    | Call f a kw =>
        match rec with None => EOut | Some run =>
          match ftab f with
          | None => EVal (inr no_such_function) w
          | Some d =>
            match f_kind d with
            | KGen => if f_accepts d a kw
                      then let (h, w1) := new_gen (GNew false (f_wrapper d a kw)) w in EVal (inl (VGen h)) w1
                      else EVal (inr (mk_exn TypeErrorC [VStr "call arguments"])) w
            | KSync => match run _ (f_wrapper d a kw) w with
                       | Done r w1 => EVal r w1
                       | Susp _ _ _ => EVal (inr bad_yield) w   (* impossible in Python: `yield` in a plain function makes it a generator *)
                       | OutOfFuel => EOut end
            | KAsync => match run _ (f_wrapper d a kw) w with
                        | Done r w1 => EVal r w1
                        | Susp v kk w1 => ESusp v (fun r => catch (kk r)) w1
                        | OutOfFuel => EOut end
            end
          end
        end
    | CallBody f a kw =>
        match rec with None => EOut | Some run =>
          match ftab f with
          | None => EVal (inr no_such_function) w
          | Some d =>
            let w0 := on_st (emit (EvBody f a kw)) w in
            match f_kind d with
            | KGen => if f_binds d a kw
                      then let (h, w1) := new_gen (GNew false (log (EvBody f a kw) ;;; f_body d a kw)) w in EVal (inl (VGen h)) w1
                      else EVal (inr (mk_exn TypeErrorC [VStr "call arguments"])) w
            | KSync => match run _ (f_body d a kw) w0 with
                       | Done r w1 => EVal r w1
                       | Susp _ _ _ => EVal (inr bad_yield) w   (* impossible in Python: `yield` in a plain function makes it a generator *)
                       | OutOfFuel => EOut end
            | KAsync => match run _ (f_body d a kw) w0 with
                        | Done r w1 => EVal r w1
                        | Susp v kk w1 => ESusp v (fun r => catch (kk r)) w1
                        | OutOfFuel => EOut end
            end
          end
        end
    | Spawn f a kw =>
        let (h, w1) := new_gen (GNew true (Vis (Call f a kw) (fun r => lift_res r))) w in EVal (VGen h) w1
    | GenResume h r =>
        match rec with None => EOut | Some run =>
          let go (co : bool) (p : prog value) :=
            match run _ p (set_gen h GRunning w) with
            | Done (inl v) w1 => EVal (match r with Close => GStop VNone | _ => GStop v end) (set_gen h (GDone co) w1)
            | Done (inr e) w1 =>
                EVal (match r with
                      | Close => if isinstance e "GeneratorExit" || isinstance e "StopIteration" then GStop VNone else GRaise e
                      | _ => GRaise e end) (set_gen h (GDone co) w1)
            | Susp v g' w1 =>
                match r with
                | Close => EVal (GRaise ignored_exit) (set_gen h (GLive co g') w1)
                | _ => EVal (GYield v) (set_gen h (GLive co g') w1)
                end
            | OutOfFuel => EOut
            end in
          match nth h (gens w) (GDone false) with
          | GDone true => EVal (match r with Close => GStop VNone | _ => GRaise reused_coroutine end) w
          | GDone false | GRunning => EVal (finished r) w
          | GNew co p =>
              match r with
              | Send VNone => go co p
              | Send _ => EVal (GRaise just_started) w      (* can't send non-None value to a just-started generator *)
              | _ => EVal (finished r) (set_gen h (GDone co) w)
              end
          | GLive co g => go co (g r)
          end
        end
    end.

  Fixpoint interp (fuel : nat) : runner :=
    let rec := match fuel with O => None | S fuel' => Some (interp fuel') end in
    fix go A (p : prog A) (w : world) {struct p} : res A :=
    match p with
    | Ret a => Done (inl a) w
    | Raise e => Done (inr e) w
    | Yield v k => Susp v k w
    | Vis ev k =>
        match handle rec ev w with
        | EVal x w1 => go _ (k x) w1
        | ESusp v kk w1 => Susp v (fun r => bind (kk r) k) w1
        | EOut => OutOfFuel
        end
    end.
  Definition rec_of (fuel : nat) : option runner := match fuel with O => None | S fuel' => Some (interp fuel') end.
End Interp.

(* ---------- generic helpers used by generated code ---------- *)
Definition call_func (f : fid) (a : pargs) (k : pkwargs) : prog value := r <- trigger (CallBody f a k) ;; lift_res r.
Definition call_decorated (f : fid) (a : pargs) (k : pkwargs) : prog value := r <- trigger (Call f a k) ;; lift_res r.
Definition gen_of (v : value) : nat := match v with VGen h => h | _ => 0 end.
Definition gen_step (g : value) (r : resume) : prog gen_res := trigger (GenResume (gen_of g) r).
(* next(generator): StopIteration is an exception here *)
Definition gen_next (g : value) : prog value :=
  log (EvResume (gen_of g)) ;;;
  r <- gen_step g (Send VNone) ;;
  match r with GYield v => Ret v | GStop _ => Raise stop_iteration | GRaise e => Raise e end.

(* `yield from g` (PEP 380): values, sent values, thrown exceptions, close and the return value are all forwarded *)
Fixpoint yield_from_loop (fuel : nat) (g : value) (r : resume) : prog value :=
  match fuel with
  | O => Raise out_of_fuel
  | S n => x <- gen_step g r ;;
           match x with
           | GYield v => Yield v (fun r' => match r' with
                                            | Close => gen_step g Close ;;; Raise generator_exit
                                            | _ => yield_from_loop n g r' end)
           | GStop v => Ret v
           | GRaise e => Raise e
           end
  end.
Definition yield_from (fuel : nat) (g : value) : prog value := yield_from_loop fuel g (Send VNone).
