(* Sem/ScnDecorate.v -- evaluation entry point of the C19 correspondence: the planner model and the regenerated mutation algebra on
   the descriptor of one module, compared with what the implementation planned and emitted. *)
From Coq Require Import List Arith Bool String.
Import ListNotations.
Require Import Show Transformer DecorateModel Lines Render.
Open Scope string_scope.
Local Open Scope list_scope.

Definition show_pmut (m : pmut) : string :=
  match m with
  | PAppend l t => ("A " ++ show_nat l ++ " " ++ t)%string
  | PInsertText l t => ("T " ++ show_nat l ++ " " ++ t)%string
  | PInsertC l c a i => ("C " ++ show_nat l ++ " " ++ cat_name c ++ " " ++ show_nat i ++ " [" ++ join "; " a ++ "]")%string
  | PRemove l => ("R " ++ show_nat l)%string
  end.
Fixpoint list_eqb (a b : list string) : bool :=
  match a, b with [], [] => true | x :: a', y :: b' => String.eqb x y && list_eqb a' b' | _, _ => false end.
Definition opt_eqb (a b : option (list string)) : bool :=
  match a, b with None, None => true | Some x, Some y => list_eqb x y | _, _ => false end.
Definition show_opt (a : option (list string)) : string := match a with None => "<raises>" | Some l => lines l end.

(* the planner's well-formedness on every line of the file (and the line after it) *)
Definition wf_all (ms : list mut) (n : nat) : bool := forallb (fun l => wf_at l ms) (seq 1 (S n)).

Definition check_case (quote : string) (ty : types) (h : head) (body : list stmt) (fs : list func) (ls : list string)
                      (eplan eout : option (list string)) : string :=
  let p := plan quote ty h body fs in
  let o := transform quote ty h body fs ls in
  let ps := option_map (map show_pmut) p in
  let wf := match p with Some ms => wf_all (map lower ms) (List.length ls) | None => true end in
  let closed := match p with
                | Some (m :: ms) => if wf then list_eqb (render (sort_desc (map lower (m :: ms))) 1 ls) (apply_mutations (map lower (m :: ms)) ls) else true
                | _ => true end in
  ((if opt_eqb ps eplan then "plan=ok" else "plan=DIFF") ++ (if opt_eqb o eout then " out=ok" else " out=DIFF")
   ++ " wf=" ++ show_bool wf ++ " render=" ++ show_bool closed
   ++ (if opt_eqb ps eplan then "" else nl ++ "model plan:" ++ nl ++ show_opt ps)
   ++ (if opt_eqb o eout then "" else nl ++ "model output:" ++ nl ++ show_opt o))%string.
