(* Sem/InvCode.v -- the statements of deal/_runtime/_invariant.py as a small instruction language, and what each instruction does
   to the invariant state machine of Sem/InvModel.v. tools/py2coq/tr_invariant.py regenerates the instruction lists of
   InvariantedClass._deal_validate / _deal_patched_method / __getattribute__ / __setattr__ and of invariant() from the source on
   every run (Gen/Invariant.v); Thm/C05/Refine.v proves that the regenerated lists, run by the semantics below, are the hand-written
   step function the C05 theorems are about. One instruction per source statement: a dropped, duplicated or reordered statement gives a
   different list. *)
From Coq Require Import List ZArith Bool String.
Import ListNotations.
Require Import Base Show InvModel.
Open Scope string_scope.

(* _deal_validate(self) *)
Inductive vinstr :=
| VIfNotDebugReturn          (* if not state.debug: return *)
| VForInvsValidate           (* for validator in self._deal_invariants: validator.validate((self,), {}) *)
| VSetDebug (b : bool)       (* state.debug = b *)
| VTryForInvsValidateFinallySetDebug (b : bool).
                             (* try: for validator in self._deal_invariants: validator.validate((self,), {})  finally: state.debug = b *)
(* _deal_patched_method(self, method, *args, **kwargs ) *)
Inductive minstr :=
| MValidate                  (* self._deal_validate() *)
| MCallIntoResult            (* result = method( *args, **kwargs ) *)
| MReturnResult.             (* return result *)
(* __setattr__(self, name, value) *)
Inductive sinstr :=
| SStore                     (* super().__setattr__(name, value) *)
| SValidate.                 (* self._deal_validate() *)
(* __getattribute__(self, name) *)
Inductive ginstr :=
| GLookup                    (* attr = super().__getattribute__(name) *)
| GIfDealAttrReturn          (* if name in DEAL_ATTRS: return attr *)
| GIfNotMethodReturn         (* if not isinstance(attr, MethodType): return attr *)
| GPartialPatched            (* patched_method = partial(self._deal_patched_method, attr) *)
| GReturnWrapped.            (* return update_wrapper(patched_method, attr) *)
(* invariant(validator, _class) *)
Inductive cinstr :=
| CIfRemovedReturnClass      (* if state.removed: return _class *)
| CGetInvs                   (* invs = getattr(_class, ATTR, None) *)
| CIfNoneNewElseExtend (first_mixin : bool) (append_back : bool)
                             (* if invs is None: type(name + 'Invarianted', (InvariantedClass, _class), {ATTR: [validator]})
                                else: type(name, (_class,), {ATTR: invs + [validator]});
                                first_mixin: InvariantedClass comes before _class in the bases; append_back: invs + [validator] *)
| CReturnPatched.            (* return patched_class *)

Record inv_code := {
  c_validate : list vinstr;
  c_patched : list minstr;
  c_setattr : list sinstr;
  c_getattribute : list ginstr;
  c_invariant : list cinstr;
  c_deal_attrs : list string;
}.

Section Exec.
  Variable code : inv_code.
  Variables (cls : attrs) (invs : list inv).

  (* _deal_validate: the state afterwards (the switch is part of it) and None = returned normally, Some e = raised e *)
  Definition set_enabled (s : istate) (b : bool) : istate := {| s_inst := s_inst s; s_enabled := b |}.
  Fixpoint exec_validate (l : list vinstr) (s : istate) : istate * option outcome :=
    match l with
    | [] => (s, None)
    | VIfNotDebugReturn :: t => if s_enabled s then exec_validate t s else (s, None)
    | VForInvsValidate :: t => match of_vres (validate_all cls (s_inst s) invs) with Some e => (s, Some e) | None => exec_validate t s end
    | VSetDebug b :: t => exec_validate t (set_enabled s b)
    | VTryForInvsValidateFinallySetDebug b :: t =>
        match of_vres (validate_all cls (s_inst s) invs) with
        | Some e => (set_enabled s b, Some e)
        | None => exec_validate t (set_enabled s b)
        end
    end.
  Definition validate (s : istate) : istate * option outcome := exec_validate (c_validate code) s.

  (* __setattr__ *)
  Fixpoint exec_setattr (l : list sinstr) (s : istate) (n : string) (v : value) : istate * option outcome :=
    match l with
    | [] => (s, None)
    | SStore :: t => exec_setattr t (set_attr s n v) n v
    | SValidate :: t => match validate s with (s1, Some e) => (s1, Some e) | (s1, None) => exec_setattr t s1 n v end
    end.
  Definition setattr (s : istate) (n : string) (v : value) := exec_setattr (c_setattr code) s n v.

  (* the body of an instance method: assignments through self (each one goes through __setattr__), then raise or return *)
  Fixpoint body_sets (s : istate) (l : list (string * value)) : istate * option outcome :=
    match l with
    | [] => (s, None)
    | (n, v) :: t => match setattr s n v with (s1, Some e) => (s1, Some e) | (s1, None) => body_sets s1 t end
    end.
  Definition call_method (s : istate) (sets : list (string * value)) (raises : bool) (ret : Z) : istate * (value + outcome) :=
    match body_sets s sets with
    | (s1, Some e) => (s1, inr e)
    | (s1, None) => if raises then (s1, inr (Exc "ValueError")) else (s1, inl (VInt ret))
    end.

  (* _deal_patched_method: `result` is the local variable; `method` is the bound method it was given *)
  Section Patched.
    Variable method : istate -> istate * (value + outcome).
    Fixpoint exec_patched (l : list minstr) (s : istate) (result : option value) : istate * outcome :=
      match l with
      | [] => (s, Ok VNone)
      | MValidate :: t => match validate s with (s1, Some e) => (s1, e) | (s1, None) => exec_patched t s1 result end
      | MCallIntoResult :: t => match method s with
                                | (s1, inr e) => (s1, e)
                                | (s1, inl v) => exec_patched t s1 (Some v)
                                end
      | MReturnResult :: _ => (s, match result with Some v => Ok v | None => Exc "UnboundLocalError" end)
      end.
  End Patched.

  (* __getattribute__: what is handed out for an attribute of the given kind. true = the patched method, false = the attribute itself *)
  Inductive akind := KDeal (name : string) | KMethod | KOther.
  Fixpoint exec_getattribute (l : list ginstr) (k : akind) (have_attr have_patched : bool) : option bool :=
    match l with
    | [] => None                                            (* falls off the end: returns None *)
    | GLookup :: t => exec_getattribute t k true have_patched
    | GIfDealAttrReturn :: t => match k with
                                | KDeal n => if existsb (String.eqb n) (c_deal_attrs code) then (if have_attr then Some false else None)
                                             else exec_getattribute t k have_attr have_patched
                                | _ => exec_getattribute t k have_attr have_patched
                                end
    | GIfNotMethodReturn :: t => match k with
                                 | KMethod => exec_getattribute t k have_attr have_patched
                                 | _ => if have_attr then Some false else None
                                 end
    | GPartialPatched :: t => if have_attr then exec_getattribute t k have_attr true else None
    | GReturnWrapped :: _ => if have_patched then Some true else None
    end.
  Definition getattribute (k : akind) : option bool := exec_getattribute (c_getattribute code) k false false.

  (* a call of a method through the instance: __getattribute__ decides what is called *)
  Definition call_through (method : istate -> istate * (value + outcome)) (s : istate) : option (istate * outcome) :=
    match getattribute KMethod with
    | Some true => Some (exec_patched method (c_patched code) s None)
    | Some false => Some (match method s with (s1, inr e) => (s1, e) | (s1, inl v) => (s1, Ok v) end)
    | None => None
    end.
  (* bodies with raw stores and nested calls through self *)
  Fixpoint inner_items (s : istate) (l : list iitem) : istate * option outcome :=
    match l with
    | [] => (s, None)
    | (raw, (n, v)) :: t => if raw : bool then inner_items (set_attr s n v) t
                            else match setattr s n v with (s1, Some e) => (s1, Some e) | (s1, None) => inner_items s1 t end
    end.
  Definition inner_method (items : list iitem) (raises : bool) (s : istate) : istate * (value + outcome) :=
    match inner_items s items with
    | (s1, Some e) => (s1, inr e)
    | (s1, None) => if raises then (s1, inr (Exc "ValueError")) else (s1, inl VNone)
    end.
  Fixpoint body_items (s : istate) (l : list bitem) : option (istate * option outcome) :=
    match l with
    | [] => Some (s, None)
    | BSet n v :: t => match setattr s n v with (s1, Some e) => Some (s1, Some e) | (s1, None) => body_items s1 t end
    | BRaw n v :: t => body_items (set_attr s n v) t
    | BInner items raises :: t => match call_through (inner_method items raises) s with
                                  | Some (s1, Ok _) => body_items s1 t
                                  | Some (s1, e) => Some (s1, Some e)
                                  | None => None
                                  end
    end.
  Definition body_method (body : list bitem) (raises : bool) (ret : Z) (s : istate) : option (istate * (value + outcome)) :=
    match body_items s body with
    | Some (s1, Some e) => Some (s1, inr e)
    | Some (s1, None) => Some (if raises then (s1, inr (Exc "ValueError")) else (s1, inl (VInt ret)))
    | None => None
    end.

  (* one operation of a history, through the regenerated code *)
  Definition step_code (s : istate) (o : iop) : option (istate * outcome) :=
    match o with
    | OSet n v => match setattr s n v with (s1, Some e) => Some (s1, e) | (s1, None) => Some (s1, Ok VNone) end
    | OCall sets raises ret => call_through (fun s0 => call_method s0 sets raises ret) s
    | OCallB body raises ret =>
        (* the body is a total function of the state once __getattribute__ hands out something for methods *)
        match getattribute KMethod with
        | None => None
        | Some _ => call_through (fun s0 => match body_method body raises ret s0 with Some r => r | None => (s0, inr (Exc "<stuck>")) end) s
        end
    | OStatic ret =>
        match getattribute KOther with
        | Some false => Some (s, Ok (VInt ret))
        | _ => None
        end
    | OSwitch b => Some ({| s_inst := s_inst s; s_enabled := b |}, Ok VNone)
    end.
End Exec.

(* invariant(): the list of validators of the class after decorating with the invariants vs, innermost first; None = the class is
   returned unchanged (permanently removed) or the code does not produce a class *)
Section Decorate.
  Variable A : Type.
  Fixpoint exec_invariant (l : list cinstr) (removed : bool) (have_invs : bool) (invs : option (list A)) (v : A) : option (option (list A)) :=
    match l with
    | [] => None
    | CIfRemovedReturnClass :: t => if removed then Some invs else exec_invariant t removed have_invs invs v
    | CGetInvs :: t => exec_invariant t removed true invs v
    | CIfNoneNewElseExtend first_mixin append_back :: t =>
        if have_invs && first_mixin
        then match t with
             | [CReturnPatched] => Some (Some (match invs with None => [v] | Some l0 => if append_back then (l0 ++ [v])%list else v :: l0 end))
             | _ => None
             end
        else None
    | CReturnPatched :: _ => None
    end.
  Fixpoint decorate_all (l : list cinstr) (removed : bool) (invs : option (list A)) (vs : list A) : option (option (list A)) :=
    match vs with
    | [] => Some invs
    | v :: t => match exec_invariant l removed false invs v with Some r => decorate_all l removed r t | None => None end
    end.
End Decorate.
Arguments exec_invariant {A}.
Arguments decorate_all {A}.
