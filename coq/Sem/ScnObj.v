(* Sem/ScnObj.v -- composition scenarios: functions built by sequences of decoration steps over shared contract objects and
   foreign decorators (Sem/ObjModel.v), run with the generated wrappers; introspection queries. *)
From Coq Require Import List ZArith Bool String.
Import ListNotations.
Require Import Base Prog Sig Interp InterpFacts Model Show State ScnSwitch Validators HasPatcher Contracts Dispatch Scenario ObjModel.
Open Scope string_scope.

Inductive bstep := BUse (cid : nat) | BWraps (tag : nat) | BPlain (tag : nat) | BChain (cids : list nat).
Record ofun := { of_name : fid; of_kind : fkind; of_sig : sig; of_body : list bstmt; of_build : list bstep }.
Record oscenario := { os_contracts : list (nat * citem); os_funs : list ofun; os_driver : list action;
                      os_queries : list (string * fid) }.    (* after the driver: ("contracts" | "unwrap", function) *)

Definition step_of_item (cid : nat) (i : citem) : step :=
  match i with
  | CPre _ => SVal KPre cid | CPost _ => SVal KPost cid | CEnsure _ => SVal KEnsure cid
  | CRaises _ _ _ _ => SVal KRaises cid | CReason _ _ => SVal KReason cid | CHas _ _ _ _ => SHas cid
  end.
Definition steps_of (cs : list (nat * citem)) (b : bstep) : list step :=
  let one c := match nlookup c cs with Some i => [step_of_item c i] | None => [] end in
  match b with
  | BUse c => one c | BWraps t => [SWraps t] | BPlain t => [SPlain t] | BChain l => List.concat (map one l)
  end.

(* build every function in order: (heap, name -> body object, name -> final object) *)
Definition build_fun (cs : list (nat * citem)) (acc : heap * list (fid * nat) * list (fid * nat)) (f : ofun) :=
  let '(h, bodies, finals) := acc in
  let (h1, o) := new_obj h {| o_kind := OBody (of_name f); o_attr := None; o_wrapped := None; o_fkind := of_kind f |} in
  let (h2, fin) := apply_steps h1 o (List.concat (map (steps_of cs) (of_build f))) in
  (h2, ((of_name f, o) :: bodies), ((of_name f, fin) :: finals)).
Definition build (sc : oscenario) := fold_left (build_fun (os_contracts sc)) (os_funs sc) (heap0, [], []).

Definition oname (o : nat) : fid := "o" ++ show_nat o.
(* the signature inspect.signature(obj) reports: follow __wrapped__; an opaque foreign layer is ( *args, **kwargs) *)
Fixpoint sig_of_obj (fuel : nat) (fs : list ofun) (h : heap) (o : nat) : sig :=
  match fuel with
  | O => []
  | S n => match o_kind (get_obj h o) with
           | OBody name => match find (fun f => String.eqb (of_name f) name) fs with Some f => of_sig f | None => [] end
           | _ => match o_wrapped (get_obj h o) with
                  | Some w => sig_of_obj n fs h w
                  | None => [{| p_name := "args"; p_kind := VarPos; p_default := None |}; {| p_name := "kwargs"; p_kind := VarKw; p_default := None |}]
                  end
           end
  end.
(* __name__ of an object: functools.wraps / update_wrapper copy it from the wrapped object; a plain foreign layer is `inner` *)
Fixpoint disp_name (fuel : nat) (h : heap) (o : nat) : fid :=
  match fuel with
  | O => "?"
  | S n => match o_kind (get_obj h o) with
           | OBody name => name
           | _ => match o_wrapped (get_obj h o) with Some w => disp_name n h w | None => "inner" end
           end
  end.
Definition sfun_of (f : ofun) : sfun := {| sf_name := of_name f; sf_kind := of_kind f; sf_sig := of_sig f; sf_stack := []; sf_body := of_body f |}.

Definition validator_of (sc : oscenario) (h : heap) (k : ckind) (cid : nat) : validator :=
  let fo := match nlookup cid (h_vfun h) with Some o => o | None => 0 end in
  let pseudo := {| sf_name := disp_name 20 h fo; sf_kind := KSync; sf_sig := sig_of_obj 20 (os_funs sc) h fo; sf_stack := []; sf_body := [] |} in
  match nlookup cid (os_contracts sc) with
  | Some (CPre v) => mk_validator pseudo VCPlain PreContractErrorC v [] ExceptionC
  | Some (CPost v) => mk_validator pseudo VCPlain PostContractErrorC v [] ExceptionC
  | Some (CEnsure v) => mk_validator pseudo VCPlain PostContractErrorC v [] ExceptionC
  | Some (CRaises id excs msg exc) => mk_validator pseudo VCRaises RaisesContractErrorC (raises_sval cid msg exc) excs ExceptionC
  | Some (CReason ev v) => mk_validator pseudo VCReason ReasonContractErrorC v [] ev
  | _ => validator0
  end.
Definition contracts_of_reg (sc : oscenario) (h : heap) (r : nat) : contracts :=
  let rg := get_reg h r in
  let pick k := map (fun kv => validator_of sc h k (snd kv)) (filter (fun kv => ckind_eqb (fst kv) k) (r_vals rg)) in
  {| c_func := oname (r_func rg); c_pres := pick KPre; c_posts := pick KPost; c_ensures := pick KEnsure; c_examples := pick KExample;
     c_raises := pick KRaises; c_reasons := pick KReason;
     c_patcher := match r_patcher rg with
                  | Some p => match nlookup p (os_contracts sc) with
                              | Some (CHas _ markers msg exc) =>
                                  Some {| p_id := p; p_markers := markers; p_message := msg; p_exception := pure_of (PatcherInit.run msg exc) (EClass MarkerErrorC) |}
                              | _ => None end
                  | None => None end |}.

Definition obj_call (sc : oscenario) (h : heap) (o : nat) (a : pargs) (k : pkwargs) : prog value :=
  match o_kind (get_obj h o) with
  | OBody name => match find (fun f => String.eqb (of_name f) name) (os_funs sc) with
                  | Some f => body_of (sfun_of f) a k | None => Raise no_such_function end
  | ODeal r => wrapper LF (o_fkind (get_obj h o)) (contracts_of_reg sc h r) a k
  | OForeign tag inner => log (EvForeign tag) ;;; call_decorated (oname inner) a k
  end.
Definition parse_oname (h : heap) (s : string) : option nat := find (fun i => String.eqb (oname i) s) (seq 0 (List.length (h_objs h))).
Definition otab (sc : oscenario) : fid -> option fdef :=
  let '(h, bodies, finals) := build sc in
  fun n =>
    let target := match lookup n finals with Some o => Some o | None => parse_oname h n end in
    match target with
    | Some o => if Nat.ltb o (List.length (h_objs h))
                then Some {| f_kind := o_fkind (get_obj h o); f_wrapper := obj_call sc h o; f_body := obj_call sc h o;
                             f_accepts := fun a k => match o_kind (get_obj h o) with
                                                     | OBody name => match find (fun f => String.eqb (of_name f) name) (os_funs sc) with
                                                                     | Some f => is_some (call_bind (of_sig f) a k) | None => true end
                                                     | _ => true end;
                             f_binds := fun a k => match o_kind (get_obj h o) with
                                                   | OBody name => match find (fun f => String.eqb (of_name f) name) (os_funs sc) with
                                                                   | Some f => is_some (call_bind (of_sig f) a k) | None => true end
                                                   | _ => true end |}
                else None
    | None => None
    end.

Definition show_ckind (k : ckind) := match k with KPre => "pre" | KPost => "post" | KEnsure => "ensure" | KExample => "example" | KRaises => "raises" | KReason => "reason" end.
Definition show_record (r : record) := match r with RVal k v => show_ckind k ++ ":" ++ show_nat v | RHas p => "has:" ++ show_nat p end.
Definition answer (sc : oscenario) (q : string * fid) : string :=
  let '(h, bodies, finals) := build sc in
  match lookup (snd q) finals with
  | None => "?"
  | Some o =>
      if String.eqb (fst q) "contracts" then "Q contracts " ++ snd q ++ " " ++ join "," (map show_record (get_contracts 30 h o []))
      else "Q unwrap " ++ snd q ++ " " ++
           match o_kind (get_obj h (unwrap h o)) with OBody name => name | ODeal _ => "deal-wrapper" | OForeign t _ => "foreign" end
  end.
Definition show_oscenario (sc : oscenario) : string :=
  let tab := otab sc in
  match pump tab 30 (interp tab FUEL (drive [] (os_driver sc)) w_init) with
  | Done (inl l) _ => join "|" (show_steps 0 l ++ map (answer sc) (os_queries sc))
  | Done (inr e) _ => "<driver raised " ++ c_name (e_cls e) ++ ">"
  | Susp _ _ _ => "<driver suspended>"
  | OutOfFuel => "<out of fuel>"
  end.
