(* Sem/ExtractCode.v -- the statements of deal/introspection/_extractor.py (get_contracts, unwrap) as a small instruction language over
   the object heap of Sem/ObjModel.v. tools/py2coq/tr_extractor.py regenerates the instruction lists from the source on every run
   (Gen/Extractor.v); Thm/C14/ExtractRefine.v proves that the regenerated lists, run by the semantics below, are ObjModel.get_contracts
   and ObjModel.unwrap for every heap, function object, seen-set and fuel. One instruction per source statement. *)
From Coq Require Import List ZArith Bool String.
Import ListNotations.
Require Import Base Prog Sig Interp Model ObjModel.
Open Scope string_scope.

(* inside `if isinstance(contracts, Contracts) and id(contracts) not in seen:` *)
Inductive rinstr :=
| RSeenAdd                                   (* seen.add(id(contracts)) *)
| RForYield (field wrapper : ckind)          (* for validator in contracts.<field>: yield _wrappers.<Wrapper>(validator) *)
| RIfPatcherYieldHas.                        (* if contracts.patcher: yield _wrappers.Has(contracts.patcher) *)
(* the body of `while True:` *)
Inductive linstr :=
| LIfInheritPatch                            (* if isinstance(func, Inherit): func = func._patch() *)
| LGetRegistry                               (* contracts = getattr(func, ATTR, None) *)
| LIfNewRegistry (body : list rinstr)        (* if isinstance(contracts, Contracts) and id(contracts) not in seen: body *)
| LFollowWrappedElseReturn.                  (* if hasattr(func, '__wrapped__'): func = func.__wrapped__  else: return *)
(* unwrap *)
Inductive uinstr :=
| UGetRegistry                               (* contracts = getattr(func, ATTR, None) *)
| UIfRegistryReturnOrigin                    (* if isinstance(contracts, Contracts): return contracts.func *)
| UReturnFunc.                               (* return func *)
Record extractor_code := { x_seen_init : bool;      (* seen: set[int] = set() comes first *)
                           x_loop : list linstr; x_unwrap : list uinstr; x_attr : string }.

Definition pick (vals : list (ckind * nat)) (field wrapper : ckind) : list record :=
  map (fun kv => RVal wrapper (snd kv)) (filter (fun kv => ckind_eqb (fst kv) field) vals).

Fixpoint exec_reg (l : list rinstr) (h : heap) (r : nat) (seen : list nat) : list record * list nat :=
  match l with
  | [] => ([], seen)
  | RSeenAdd :: t => exec_reg t h r (r :: seen)
  | RForYield f w :: t => let (o, s) := exec_reg t h r seen in ((pick (r_vals (get_reg h r)) f w ++ o)%list, s)
  | RIfPatcherYieldHas :: t => let (o, s) := exec_reg t h r seen in
                               ((match r_patcher (get_reg h r) with Some p => [RHas p] | None => [] end ++ o)%list, s)
  end.

Inductive lres := LNext (func : nat) | LReturn.
(* one pass through the loop body. The objects of this heap are functions and wrappers, never Inherit descriptors (those live in
   Sem/InheritHeap.v): LIfInheritPatch changes nothing here. `reg` is the local variable `contracts` (None before it is assigned) *)
Fixpoint exec_iter (l : list linstr) (h : heap) (func : nat) (reg : option (option nat)) (seen : list nat) : list record * list nat * lres :=
  match l with
  | [] => ([], seen, LNext func)
  | LIfInheritPatch :: t => exec_iter t h func reg seen
  | LGetRegistry :: t => exec_iter t h func (Some (o_attr (get_obj h func))) seen
  | LIfNewRegistry body :: t =>
      match reg with
      | Some (Some r) =>
          if existsb (Nat.eqb r) seen then exec_iter t h func reg seen
          else let (o, s) := exec_reg body h r seen in
               let '(o2, s2, res) := exec_iter t h func reg s in ((o ++ o2)%list, s2, res)
      | Some None => exec_iter t h func reg seen
      | None => ([], seen, LReturn)                 (* NameError: the variable is read before it is assigned; ends the iteration *)
      end
  | LFollowWrappedElseReturn :: _ =>
      match o_wrapped (get_obj h func) with Some w => ([], seen, LNext w) | None => ([], seen, LReturn) end
  end.
Fixpoint exec_get_contracts (fuel : nat) (loop : list linstr) (h : heap) (func : nat) (seen : list nat) : list record :=
  match fuel with
  | O => []
  | S n => let '(o, s, res) := exec_iter loop h func None seen in
           match res with LNext f => (o ++ exec_get_contracts n loop h f s)%list | LReturn => o end
  end.

Fixpoint exec_unwrap (l : list uinstr) (h : heap) (func : nat) (reg : option (option nat)) : option nat :=
  match l with
  | [] => None
  | UGetRegistry :: t => exec_unwrap t h func (Some (o_attr (get_obj h func)))
  | UIfRegistryReturnOrigin :: t => match reg with
                                    | Some (Some r) => Some (r_func (get_reg h r))
                                    | Some None => exec_unwrap t h func reg
                                    | None => None
                                    end
  | UReturnFunc :: _ => Some func
  end.
